"""Builder of the Lua-grammar units (C02 grammar part; discharges the contract unit c01_parser ASSUMES for parse_stats).

Three units are generated from the same sources:
  c02_gexpr    every fn of grammar/lua/expr.rs proved; the fns of stat.rs / mod.rs it calls are ASSUMED (external_body) with
               the contract text written in stat_items.py (proved in c02_gstat / c02_grammar)
  c02_gstat    every fn of grammar/lua/stat.rs and grammar/lua/mod.rs (except parse_chunk, proved in the base) proved; the fns of
               expr.rs are ASSUMED with the contract text written in expr_items.py
  c02_grammar  everything proved in one file (no assumed grammar contract is left; the recursion through both files is checked
               against the `decreases` clauses)
All three extend unit c01_parser: its items (real parser driver + marker API, re-verified here) and its template, from which the
hand-written ASSUMED shim of `parse_stats` is cut out and replaced by the real grammar.

expr_items.py / stat_items.py:  ITEMS = { '<fn name>': { overlay ... } }   one entry per fn of the file (a fn of the file without
an entry makes the unit UNDECIDED, so a new grammar function cannot escape the proof), LEMMAS = '<file included before the fns>'.
Overlay keys are those of units/README.md plus:
  'std': False      do not add the standard grammar contract (for helpers without a `p: &mut LuaParser` parameter)
  'rank': n         position in the termination order (see gspec.rs); used as `decreases grem(old(p)), n`
"""
import copy
import importlib.util
import os
import re

from vc import extract as X
from vc import rustlex as L
from vc.extract import Undecided
from vc.assemble import REPO, VERIF
from vc import rules as R

GDIR = 'crates/emmylua_parser/src/grammar/lua/'
FILES = {'expr': [GDIR + 'expr.rs'], 'stat': [GDIR + 'stat.rs', GDIR + 'mod.rs']}
SKIP = {'parse_chunk'}          # proved in the base unit (c01_parser) against the contract of parse_stats

STD_REQ = 'ginv(old(p))'
STD_ENS = 'ginv(final(p)), gstep(old(p), final(p))'


@R.rule('body-unimplemented')
def body_unimplemented(text, **_):
    """ASSUMED items only: the body of the fn is replaced by `{ unimplemented!() }` (the fn is `#[verifier::external_body]`: only its
    signature and contract are used; the same fn is proved, with its real body, in the unit named in the evidence)"""
    sh = X.fn_shape(text)
    return text[:sh.body_open] + '{ unimplemented!() }' + text[sh.body_close + 1:], 1


def _load(path, name):
    spec = importlib.util.spec_from_file_location(name, path)
    mod = importlib.util.module_from_spec(spec)
    spec.loader.exec_module(mod)
    return mod


def fns_of(repo, rel):
    """names of the top-level fns of a file, in textual order (cfg(test) modules are `mod` items and are skipped)"""
    src = X.read_source(repo, rel)
    toks = L.code_tokens(src)
    out = []
    for a, b in X._top_level_items(src, toks, 0, len(toks)):
        a2 = X._strip_attrs(src, toks, a, b)
        if a2 >= b: continue
        kind, name, _ = X._header(src, toks, a2, b)
        if kind == 'fn': out.append(name)
    return out


def _has_parser_param(repo, rel, name):
    it = X.find_item(repo, {'file': rel, 'kind': 'fn', 'name': name})
    sh = X.fn_shape(it.raw)
    return re.search(r'\bp\s*:\s*&\s*mut\s+LuaParser\b', it.raw[sh.params[0]:sh.params[1]]) is not None


def make_unit(prove, name):
    here = os.path.dirname(os.path.abspath(__file__))
    repo = os.environ.get('VERIF_REPO', REPO)
    base = _load(os.path.join(VERIF, 'units', 'c01_parser', 'unit.py'), 'c01_parser_unit_for_' + name).UNIT
    unit = copy.deepcopy({k: v for k, v in base.items() if k not in ('name', 'dir')})
    sides = {'expr': _load(os.path.join(here, 'expr_items.py'), 'c02_expr_items_' + name),
             'stat': _load(os.path.join(here, 'stat_items.py'), 'c02_stat_items_' + name)}
    with open(os.path.join(VERIF, 'units', 'c01_parser', 'template.rs'), encoding='utf-8') as f:
        tmpl = f.read()
    # cut the hand-written ASSUMED shim of parse_stats out of the base template
    cut = re.compile(r'/// ASSUMED contract of the statement grammar.*?#\[verifier::external_body\]\s*pub fn parse_stats\(p: &mut LuaParser\).*?\{ unimplemented!\(\) \}\n', re.S)
    if len(cut.findall(tmpl)) != 1:
        raise Undecided('c02_grammar: the parse_stats shim of units/c01_parser/template.rs was not found exactly once')
    tmpl = cut.sub('// (the ASSUMED shim of parse_stats is replaced by the real grammar below)\n', tmpl)
    section = ['', '// ' + '-' * 93, '// the Lua grammar (grammar/lua/{mod,stat,expr}.rs), extracted', '// ' + '-' * 93,
               '//@@include c02_grammar/gspec.rs']
    trusted, assumed_fns, proved_fns = [], [], []
    for side in ('expr', 'stat'):
        mod = sides[side]
        if side in prove and getattr(mod, 'LEMMAS', None):
            section.append('//@@include c02_grammar/' + mod.LEMMAS)
        for key, cfg in getattr(mod, 'TYPES', {}).items():        # enums / structs / consts the fns need (extracted)
            if key not in unit['items']:
                unit['items'][key] = copy.deepcopy(cfg)
                section.append('//@@ ' + key)
        for extra in getattr(mod, 'SHIMS', []):                    # hand-written shims (specification only), one include file each
            inc = '//@@include c02_grammar/' + extra
            if inc not in section: section.append(inc)
        for rel in FILES[side]:
            names = [n for n in fns_of(repo, rel) if n not in SKIP]
            missing = [n for n in names if n not in mod.ITEMS]
            if missing and side in prove:
                raise Undecided('c02_grammar: fns of %s without an entry in %s_items.py: %s' % (rel, side, missing))
            for n in names:
                cfg = copy.deepcopy(mod.ITEMS.get(n, {}))
                std = cfg.pop('std', None)
                if std is None: std = _has_parser_param(repo, rel, n)
                rank = cfg.pop('rank', None)
                req = [cfg.get('requires', '').strip().rstrip(',')] if cfg.get('requires') else []
                ens = [cfg.get('ensures', '').strip().rstrip(',')] if cfg.get('ensures') else []
                if std:
                    req.insert(0, STD_REQ); ens.insert(0, STD_ENS)
                item = {'src': {'file': rel, 'kind': 'fn', 'name': n}}
                if cfg.get('ret'): item['ret'] = cfg['ret']
                if req: item['requires'] = ',\n        '.join(req)
                if ens: item['ensures'] = ',\n        '.join(ens)
                if side in prove:
                    for k in ('rules', 'loops', 'proof', 'body_first', 'attrs', 'iter_names', 'extra_sig', 'default_rules', 'vac'):
                        if k in cfg: item[k] = cfg[k]
                    if cfg.get('decreases'): item['decreases'] = cfg['decreases']
                    elif rank is not None and std: item['decreases'] = 'grem(old(p)), %d' % rank
                    proved_fns.append(n)
                else:
                    if not (n in mod.ITEMS or std):
                        continue                    # helper without parser access and without a written contract: not needed by the other side
                    item['rules'] = [r for r in cfg.get('sig_rules', [])] + ['body-unimplemented']
                    item['attrs'] = '#[verifier::external_body]'
                    item['vac'] = False
                    item['default_rules'] = False
                    assumed_fns.append(n)
                unit['items']['g::' + n] = item
                section.append('//@@ g::' + n)
    tmpl = tmpl.replace('} // verus!', '\n'.join(section) + '\n\n} // verus!')
    if tmpl.count('//@@include c02_grammar/gspec.rs') != 1:
        raise Undecided('c02_grammar: could not place the grammar section in the base template')
    unit['template_text'] = tmpl
    for side in ('expr', 'stat'):
        mod = sides[side]
        if side in prove:
            unit['extra_rules'] = list(unit.get('extra_rules', [])) + list(getattr(mod, 'EXTRA_RULES', []))
            unit['mutants'] = list(unit.get('mutants', [])) + list(getattr(mod, 'MUTANTS', []))
            trusted += list(getattr(mod, 'TRUSTED', []))
            unit['allow'] = list(unit.get('allow', [])) + list(getattr(mod, 'ALLOW', []))
    # the base unit's own mutants target base items only; keep them (they still must fail here)
    base_tr = [t for t in unit.get('trusted', []) if 'parse_stats' not in t]
    if assumed_fns:
        trusted.append('ASSUMED in this unit (external_body, body replaced by unimplemented!()), PROVED with the identical contract text in unit '
                       'c02_grammar and in the sibling unit: ' + ', '.join(sorted(assumed_fns)))
    unit['trusted'] = base_tr + trusted
    unit['proved_grammar_fns'] = proved_fns
    unit['min_obligations'] = unit.get('min_obligations', 60) + len(proved_fns)
    nc = []
    for side in ('expr', 'stat'):
        if side in prove: nc += list(getattr(sides[side], 'NOT_COVERED', []))
    unit['not_covered'] = [t for t in unit.get('not_covered', []) if 'statement/expression grammar' not in t] + nc
    return unit
