import os, sys
sys.path.insert(0, os.path.dirname(os.path.abspath(__file__)))
import importlib.util
_s = importlib.util.spec_from_file_location('c02_build', os.path.join(os.path.dirname(os.path.abspath(__file__)), 'build.py'))
_b = importlib.util.module_from_spec(_s); _s.loader.exec_module(_b)
UNIT = _b.make_unit({'expr', 'stat'}, 'c02_grammar')
