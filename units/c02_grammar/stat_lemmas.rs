// ---- lemmas of the stat side (c02_gstat), all bodies verified -----------------------------------------------------------------
// Long grammar bodies make the quantifier of `ev_mono` (trigger `a[i]`: every index term of every event list) the dominant cost
// (144k instantiations in parse_for). Function bodies that `hide(ev_mono)` propagate the two facts they need from it explicitly,
// along the chain of parser states, by the two broadcast lemmas below (triggered by the `ev_mono(a, b)` term every callee contract
// leaves behind):
//   live_at(ev, pos)   the event at `pos` is a NodeStart  (m_live / gfirst / cm_live are instances)
//   ev_from(a0, b)     ev_mono from the entry state `a0` of the function (or loop) to the current state `b`

pub open spec fn live_at(ev: Seq<MarkEvent>, pos: int) -> bool { 0 <= pos < ev.len() && ev[pos] is NodeStart }

pub open spec fn ev_from(a: Seq<MarkEvent>, b: Seq<MarkEvent>) -> bool { ev_mono(a, b) }

pub broadcast proof fn lemma_live_mono(a: Seq<MarkEvent>, b: Seq<MarkEvent>, pos: int)
    requires
        #[trigger] ev_mono(a, b),
        #[trigger] live_at(a, pos),
    ensures
        live_at(b, pos),
{
}

pub broadcast proof fn lemma_from_step(a0: Seq<MarkEvent>, b: Seq<MarkEvent>, c: Seq<MarkEvent>)
    requires
        #[trigger] ev_from(a0, b),
        #[trigger] ev_mono(b, c),
    ensures
        ev_from(a0, c),
{
}

pub proof fn lemma_from_refl(a: Seq<MarkEvent>)
    ensures
        ev_from(a, a),
{
}

pub broadcast group gs_chain {
    lemma_live_mono,
    lemma_from_step,
}
