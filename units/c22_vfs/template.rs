// unit c22_vfs — contracts on the REAL `Vfs` (crates/emmylua_code_analysis/src/vfs/mod.rs).
//
// What other units assume and this unit discharges: every `LuaDocument` the Vfs hands out pairs a file's
// CURRENT text with the `LineIndex` parsed FROM THAT TEXT (C22), `set_file_content` always stores the tree
// parsed from the submitted text under the CURRENT configuration (C09), and `remove_file` leaves no entry
// for the removed file in any of the Vfs' tables (C10).
//
// Hand-written part: shims of external types (opaque, results uninterpreted), the representation
// invariants, the frame vocabulary. Items marked `//@@` are extracted from /repo on every run.
// hashbrown::HashMap -> std::collections::HashMap (same API subset; iteration order never relied on).
use vstd::prelude::*;
use std::collections::HashMap;
use std::sync::Arc;
verus! {

// ---------------------------------------------------------------------------------------------
// shims: opaque external types
// ---------------------------------------------------------------------------------------------
/// lsp_types::Uri — opaque; only compared, hashed, cloned
#[verifier::external_body] #[derive(PartialEq, Eq, Hash)] pub struct Uri { _p: () }
/// std::path::PathBuf — opaque; only compared, hashed, cloned
#[verifier::external_body] #[derive(PartialEq, Eq, Hash)] pub struct PathBuf { _p: () }
/// rowan::NodeCache — green-node interner handed to the parser; never read by the Vfs
#[verifier::external_body] pub struct NodeCache { _p: () }
/// emmylua_parser::LineIndex — opaque here (unit c22_lineindex proves what `parse` returns)
#[verifier::external_body] pub struct LineIndex { _p: () }
/// emmylua_parser::LuaSyntaxTree — opaque
#[verifier::external_body] pub struct LuaSyntaxTree { _p: () }
/// emmylua_parser::LuaParseError — opaque
#[verifier::external_body] pub struct LuaParseError { _p: () }
/// crate::Emmyrc — opaque
#[verifier::external_body] pub struct Emmyrc { _p: () }
/// emmylua_parser::ParserConfig<'cache> — opaque; borrows the node cache mutably
#[verifier::external_body] pub struct ParserConfig<'cache> { _p: &'cache mut NodeCache }
/// the part of a configuration the parser looks at (abstract value)
#[verifier::external_body] pub struct ParseCfg { _p: () }
pub struct LuaParser { }

impl Clone for Uri {
    /// std contract of Clone for a value type: the clone equals the original
    #[verifier::external_body] fn clone(&self) -> (r: Self) ensures r == *self { unimplemented!() }
}
impl Clone for PathBuf {
    #[verifier::external_body] fn clone(&self) -> (r: Self) ensures r == *self { unimplemented!() }
}
impl Clone for LuaParseError {
    #[verifier::external_body] fn clone(&self) -> (r: Self) ensures r == *self { unimplemented!() }
}
impl Default for NodeCache {
    #[verifier::external_body] fn default() -> Self { unimplemented!() }
}

// ---------------------------------------------------------------------------------------------
// shims: uninterpreted results ("it is a function of its arguments" is all that is used)
// ---------------------------------------------------------------------------------------------
/// what `LineIndex::parse` returns for a text (a function of the text only)
pub uninterp spec fn sp_line_index(text: Seq<char>) -> LineIndex;
/// the parser-relevant projection of an Emmyrc / of a ParserConfig built from it
pub uninterp spec fn sp_cfg(e: &Emmyrc) -> ParseCfg;
pub uninterp spec fn sp_cfg_of(c: &ParserConfig) -> ParseCfg;
/// what `LuaParser::parse` returns for a text under a configuration
pub uninterp spec fn sp_tree(text: Seq<char>, cfg: ParseCfg) -> LuaSyntaxTree;
/// `uri_to_file_path` / `file_path_to_uri` are pure functions of their argument
pub uninterp spec fn sp_uri_path(u: &Uri) -> Option<PathBuf>;
pub uninterp spec fn sp_path_uri(p: &PathBuf) -> Option<Uri>;
pub uninterp spec fn sp_tree_errors(t: &LuaSyntaxTree) -> Seq<LuaParseError>;

impl LineIndex {
    #[verifier::external_body]
    pub fn parse(text: &str) -> (r: LineIndex) ensures r == sp_line_index(text@) { unimplemented!() }
}
impl LuaParser {
    #[verifier::external_body]
    pub fn parse(text: &str, config: ParserConfig) -> (r: LuaSyntaxTree)
        ensures r == sp_tree(text@, sp_cfg_of(&config)) { unimplemented!() }
}
impl Emmyrc {
    #[verifier::external_body]
    pub fn get_parse_config<'cache>(&self, node_cache: &'cache mut NodeCache) -> (r: ParserConfig<'cache>)
        ensures sp_cfg_of(&r) == sp_cfg(self) { unimplemented!() }
}
impl LuaSyntaxTree {
    #[verifier::external_body]
    pub fn get_errors(&self) -> (r: &[LuaParseError]) ensures r@ == sp_tree_errors(self) { unimplemented!() }
}
#[verifier::external_body]
pub fn uri_to_file_path(uri: &Uri) -> (r: Option<PathBuf>) ensures r == sp_uri_path(uri) { unimplemented!() }
#[verifier::external_body]
pub fn file_path_to_uri(path: &PathBuf) -> (r: Option<Uri>) ensures r == sp_path_uri(path) { unimplemented!() }

/// std contract of `<[T]>::to_vec` (T: Clone) restricted to what is used: same length
#[verifier::external_body]
pub fn vx_errors_to_vec(s: &[LuaParseError]) -> (r: Vec<LuaParseError>) ensures r@.len() == s@.len() { unimplemented!() }

// ---------------------------------------------------------------------------------------------
// extracted data types
// ---------------------------------------------------------------------------------------------
//@@ FileId
//@@ FileContent
//@@ Vfs
//@@ LuaDocument

// ---------------------------------------------------------------------------------------------
// the property's vocabulary
// ---------------------------------------------------------------------------------------------
/// HashMap keys: the exec Hash/Eq of the key types agree with spec equality (derived impls on FileId;
/// std impls on PathBuf; lsp_types impl on Uri). u32 is covered by vstd.
pub open spec fn keys_ok() -> bool {
    &&& vstd::std_specs::hash::obeys_key_model::<FileId>()
    &&& vstd::std_specs::hash::obeys_key_model::<PathBuf>()
    &&& vstd::std_specs::hash::obeys_key_model::<Uri>()
}

/// file `f` currently has a text
pub open spec fn has_content(v: &Vfs, f: FileId) -> bool {
    (f.id as int) < v.file_data@.len() && v.file_data@[f.id as int] is Some
}
/// ... and this is it
pub open spec fn content_of(v: &Vfs, f: FileId) -> Seq<char> {
    v.file_data@[f.id as int]->0.content@
}
/// the configuration trees are parsed under right now
pub open spec fn cur_cfg(v: &Vfs) -> ParseCfg {
    sp_cfg(&*v.emmyrc->0)
}

/// `t` is the parse of `text` under SOME configuration (the one that was current when the text was submitted;
/// `update_config` does not re-parse, so "under the current configuration" is not an invariant)
pub open spec fn tree_of_text(t: LuaSyntaxTree, text: Seq<char>) -> bool {
    exists|c: ParseCfg| t == #[trigger] sp_tree(text, c)
}

/// Representation invariant (from the property, not from the code): a file with a text has the line
/// index parsed from exactly that text and a tree parsed from exactly that text; a file without a text has neither.
pub open spec fn vfs_wf(v: &Vfs) -> bool {
    forall|f: FileId| #![trigger has_content(v, f)] #![trigger v.line_index_map@.contains_key(f)] #![trigger v.tree_map@.contains_key(f)]
        if has_content(v, f) {
            &&& v.line_index_map@.contains_key(f)
            &&& v.line_index_map@[f] == sp_line_index(content_of(v, f))
            &&& v.tree_map@.contains_key(f)
            &&& tree_of_text(v.tree_map@[f], content_of(v, f))
        } else {
            &&& !v.line_index_map@.contains_key(f)
            &&& !v.tree_map@.contains_key(f)
        }
}

/// Id-allocation invariant: every id any table mentions has a slot in `file_data`; `file_id_map` and
/// `file_path_map` are inverse to each other; path ids and uri ids are disjoint; the id counter fits u32.
pub open spec fn vfs_ids_ok(v: &Vfs) -> bool {
    &&& v.file_data@.len() <= u32::MAX
    &&& forall|p: PathBuf| #[trigger] v.file_id_map@.contains_key(p) ==> {
            &&& (v.file_id_map@[p] as int) < v.file_data@.len()
            &&& v.file_path_map@.contains_key(v.file_id_map@[p])
            &&& v.file_path_map@[v.file_id_map@[p]] == p
        }
    &&& forall|i: u32| #[trigger] v.file_path_map@.contains_key(i) ==> {
            &&& (i as int) < v.file_data@.len()
            &&& v.file_id_map@.contains_key(v.file_path_map@[i])
            &&& v.file_id_map@[v.file_path_map@[i]] == i
        }
    &&& forall|u: Uri| #[trigger] v.remote_file_id_map@.contains_key(u) ==> {
            &&& (v.remote_file_id_map@[u].id as int) < v.file_data@.len()
            // an id handed out for a uri (remote file / document without a path) is never the id of a path
            &&& !v.file_path_map@.contains_key(v.remote_file_id_map@[u].id)
        }
}

/// the id tables (path <-> id, remote uri -> id) are the same
pub open spec fn same_id_tables(o: &Vfs, n: &Vfs) -> bool {
    &&& n.file_id_map@ == o.file_id_map@
    &&& n.file_path_map@ == o.file_path_map@
    &&& n.remote_file_id_map@ == o.remote_file_id_map@
}
/// the per-file tables (text, line index, tree) are the same
pub open spec fn same_file_tables(o: &Vfs, n: &Vfs) -> bool {
    &&& n.file_data@ == o.file_data@
    &&& n.line_index_map@ == o.line_index_map@
    &&& n.tree_map@ == o.tree_map@
}
/// slots are only ever appended, and appended empty; the slot of `except` is exempt
pub open spec fn slots_kept(o: &Vfs, n: &Vfs, except: int) -> bool {
    &&& o.file_data@.len() <= n.file_data@.len()
    &&& forall|i: int| 0 <= i < n.file_data@.len() && i != except ==>
            #[trigger] n.file_data@[i] == (if i < o.file_data@.len() { o.file_data@[i] } else { None })
}
/// frame of an update of file `fid`: every other file's text, line index and tree are untouched
pub open spec fn others_untouched(o: &Vfs, n: &Vfs, fid: FileId) -> bool {
    &&& slots_kept(o, n, fid.id as int)
    &&& n.line_index_map@.remove(fid) =~= o.line_index_map@.remove(fid)
    &&& n.tree_map@.remove(fid) =~= o.tree_map@.remove(fid)
}

/// what id allocation (`file_id`, `virtual_file_id`) may do to the per-file tables: nothing, or append
/// one empty slot, which is then the returned id
pub open spec fn alloc_frame(o: &Vfs, n: &Vfs, r: FileId) -> bool {
    &&& n.line_index_map@ == o.line_index_map@
    &&& n.tree_map@ == o.tree_map@
    &&& n.emmyrc == o.emmyrc
    &&& (r.id as int) < n.file_data@.len()
    &&& (n.file_data@ == o.file_data@ || (n.file_data@ == o.file_data@.push(None) && r.id as int == o.file_data@.len()))
}

/// the id a uri resolves to, as `get_file_id` computes it: a uri with a file path through `file_id_map`,
/// a uri without one (e.g. `untitled:`) through `remote_file_id_map`
pub open spec fn local_id(v: &Vfs, uri: &Uri) -> Option<FileId> {
    match sp_uri_path(uri) {
        Some(p) => if v.file_id_map@.contains_key(p) { Some(FileId { id: v.file_id_map@[p] }) } else { None },
        None => if v.remote_file_id_map@.contains_key(*uri) { Some(v.remote_file_id_map@[*uri]) } else { None },
    }
}

// ---------------------------------------------------------------------------------------------
// lemmas
// ---------------------------------------------------------------------------------------------
/// id allocation preserves the representation invariant
pub proof fn lemma_alloc_keeps_wf(o: &Vfs, n: &Vfs, r: FileId)
    requires vfs_wf(o), alloc_frame(o, n, r),
    ensures vfs_wf(n),
{
    assert forall|f: FileId| #![trigger has_content(n, f)] #![trigger n.line_index_map@.contains_key(f)] #![trigger n.tree_map@.contains_key(f)]
        (if has_content(n, f) {
            &&& n.line_index_map@.contains_key(f)
            &&& n.line_index_map@[f] == sp_line_index(content_of(n, f))
            &&& n.tree_map@.contains_key(f)
            &&& tree_of_text(n.tree_map@[f], content_of(n, f))
        } else {
            &&& !n.line_index_map@.contains_key(f)
            &&& !n.tree_map@.contains_key(f)
        }) by {
        assert(has_content(o, f) == has_content(n, f));
        if has_content(n, f) { assert(content_of(o, f) == content_of(n, f)); }
    }
}

/// the id-allocation invariant implies the precondition of `get_document` (its Vec index is guarded by the path lookup)
pub proof fn lemma_ids_ok_guards_document(v: &Vfs, id: FileId)
    requires vfs_ids_ok(v),
    ensures v.file_path_map@.contains_key(id.id) ==> (id.id as int) < v.file_data@.len(),
{}

/// file `fid` itself is consistent in `n` (text + the line index of that text + a tree, or none of them)
/// and every other file is as in `o`
pub open spec fn update_ok(o: &Vfs, n: &Vfs, fid: FileId) -> bool {
    &&& others_untouched(o, n, fid)
    &&& has_content(n, fid) ==> n.line_index_map@.contains_key(fid) && n.tree_map@.contains_key(fid)
            && n.line_index_map@[fid] == sp_line_index(content_of(n, fid))
            && tree_of_text(n.tree_map@[fid], content_of(n, fid))
    &&& !has_content(n, fid) ==> !n.line_index_map@.contains_key(fid) && !n.tree_map@.contains_key(fid)
}
/// such an update preserves the representation invariant. (Stated as an implication so that a call site
/// never fails on the lemma: a broken update fails the labelled postconditions instead.)
pub proof fn lemma_update_keeps_wf(o: &Vfs, n: &Vfs, fid: FileId)
    ensures vfs_wf(o) && update_ok(o, n, fid) ==> vfs_wf(n),
{
    if vfs_wf(o) && update_ok(o, n, fid) { lemma_update_keeps_wf_(o, n, fid); }
}
proof fn lemma_update_keeps_wf_(o: &Vfs, n: &Vfs, fid: FileId)
    requires vfs_wf(o), update_ok(o, n, fid),
    ensures vfs_wf(n),
{
    assert forall|f: FileId| #![trigger has_content(n, f)] #![trigger n.line_index_map@.contains_key(f)] #![trigger n.tree_map@.contains_key(f)]
        (if has_content(n, f) {
            &&& n.line_index_map@.contains_key(f)
            &&& n.line_index_map@[f] == sp_line_index(content_of(n, f))
            &&& n.tree_map@.contains_key(f)
            &&& tree_of_text(n.tree_map@[f], content_of(n, f))
        } else {
            &&& !n.line_index_map@.contains_key(f)
            &&& !n.tree_map@.contains_key(f)
        }) by {
        if f != fid {
            assert(f.id != fid.id);
            assert(n.line_index_map@.remove(fid).contains_key(f) == n.line_index_map@.contains_key(f));
            assert(o.line_index_map@.remove(fid).contains_key(f) == o.line_index_map@.contains_key(f));
            assert(n.tree_map@.remove(fid).contains_key(f) == n.tree_map@.contains_key(f));
            assert(o.tree_map@.remove(fid).contains_key(f) == o.tree_map@.contains_key(f));
            if (f.id as int) < n.file_data@.len() {
                assert(n.file_data@[f.id as int] == (if (f.id as int) < o.file_data@.len() { o.file_data@[f.id as int] } else { None }));
            }
            assert(has_content(n, f) == has_content(o, f));
            if has_content(n, f) {
                assert(content_of(n, f) == content_of(o, f));
                assert(n.line_index_map@.remove(fid)[f] == n.line_index_map@[f]);
                assert(o.line_index_map@.remove(fid)[f] == o.line_index_map@[f]);
                assert(n.tree_map@.remove(fid)[f] == n.tree_map@[f]);
                assert(o.tree_map@.remove(fid)[f] == o.tree_map@[f]);
            }
        }
    }
}

// ---------------------------------------------------------------------------------------------
// extracted from /repo
// ---------------------------------------------------------------------------------------------
impl<'a> LuaDocument<'a> {
    //@@ LuaDocument::new
}

impl Vfs {
    //@@ Vfs::new
    //@@ Vfs::file_id
    //@@ Vfs::virtual_file_id
    //@@ Vfs::get_file_id
    //@@ Vfs::get_uri
    //@@ Vfs::get_file_path
    //@@ Vfs::set_file_content
    //@@ Vfs::set_remote_file_content
    //@@ Vfs::remove_file
    //@@ Vfs::update_config
    //@@ Vfs::get_file_content
    //@@ Vfs::get_document
    //@@ Vfs::get_syntax_tree
    //@@ Vfs::get_file_parse_error
    //@@ Vfs::is_remote_file
    //@@ Vfs::clear
}

} // verus!
fn main() {}
