"""unit c22_vfs — contracts on the real `Vfs` (vfs/mod.rs), `LuaDocument::new` (vfs/document.rs), `FileId` (vfs/file_id.rs)."""
import re
from vc import rustlex as L
from vc.rules import rule
from vc.extract import Undecided

VFS = 'crates/emmylua_code_analysis/src/vfs/mod.rs'
DOC = 'crates/emmylua_code_analysis/src/vfs/document.rs'
FID = 'crates/emmylua_code_analysis/src/vfs/file_id.rs'


# ---------------------------------------------------------------------------------------------
# rewrite rules of this unit
# ---------------------------------------------------------------------------------------------
def _recv_before(text, toks, i):
    """toks[i] is a method name preceded by `.`: index of the token in front of the receiver's postfix chain
    (identifiers, field accesses, calls, indexing, `?`, paths); statement keywords end the chain"""
    j = i - 2
    while j >= 0:
        tt = L.tok_text(text, toks[j])
        if tt in (')', ']'):
            depth = 0
            while j >= 0:
                c = L.tok_text(text, toks[j])
                if c in (')', ']'): depth += 1
                elif c in ('(', '['):
                    depth -= 1
                    if depth == 0: break
                j -= 1
            j -= 1; continue
        if toks[j][0] in ('ident', 'num') or tt in ('.', '?'):
            if toks[j][0] == 'ident' and tt in ('let', 'return', 'if', 'while', 'match', 'in', 'else'): break
            j -= 1; continue
        if tt == ':' and j >= 1 and L.tok_text(text, toks[j - 1]) == ':':
            j -= 2; continue
        break
    return j


@rule('option-copied')
def option_copied(text, **_):
    """O.copied() -> (match O { Some(x) => Some(*x), None => None })   (std definition of Option<&T>::copied, T: Copy:
    `match self { Some(&v) => Some(v), None => None }`; the `&v` pattern is written as a dereference because Verus rejects
    reference patterns). O is the whole postfix chain in front of `.copied()`; rustc type-checks that O is an Option<&T>."""
    n = 0
    while True:
        toks = L.code_tokens(text)
        hit = None
        for i, t in enumerate(toks):
            if L.tok_text(text, t) == 'copied' and i >= 1 and L.tok_text(text, toks[i - 1]) == '.' \
                    and i + 2 < len(toks) and L.tok_text(text, toks[i + 1]) == '(' and L.tok_text(text, toks[i + 2]) == ')':
                j = _recv_before(text, toks, i)
                start = toks[j + 1][1]
                recv = ' '.join(text[start:toks[i - 1][1]].split())
                hit = (start, toks[i + 2][2], '(match %s { Some(__x) => Some(*__x), None => None })' % recv)
                break
        if not hit: break
        text = text[:hit[0]] + hit[2] + text[hit[1]:]
        n += 1
    return text, n


@rule('option-map-match')
def option_map_match(text, **_):
    """O.map(|x| B) -> (match O { Some(x) => Some(B), None => None });
    O.map(|&x| B) -> (match O { Some(x) => { let x = *x; Some(B) }, None => None }).
    std definition of Option::map: `match self { Some(x) => Some(f(x)), None => None }`; calling the closure `|P| B`
    on `v` is `{ let P = v; B }` because B contains no `return` / `?` / `break` / `continue` / `.await` (checked:
    otherwise undecided) and the closure is consumed on the spot (FnOnce, moves are the same moves). A `&x` parameter
    pattern against a `&T` argument binds `x = *arg` (T: Copy, type-checked by rustc on the rewritten text).
    O is the whole postfix chain in front of `.map`. Only applied to items where every `.map(` receiver is an Option
    (rustc rejects the `match` otherwise)."""
    n = 0
    while True:
        toks = L.code_tokens(text)
        hit = None
        for i, t in enumerate(toks):
            if L.tok_text(text, t) == 'map' and i >= 1 and L.tok_text(text, toks[i - 1]) == '.' \
                    and i + 1 < len(toks) and L.tok_text(text, toks[i + 1]) == '(':
                close = L.match_close(text, toks, i + 1)
                k = i + 2
                if L.tok_text(text, toks[k]) != '|':
                    raise Undecided('option-map-match: argument of .map is not a closure literal')
                k += 1
                deref = False
                if L.tok_text(text, toks[k]) == '&':
                    deref = True; k += 1
                if toks[k][0] != 'ident' or L.tok_text(text, toks[k + 1]) != '|':
                    raise Undecided('option-map-match: closure with a general pattern or several parameters')
                var = L.tok_text(text, toks[k])
                body = text[toks[k + 1][2]:toks[close][1]].strip().rstrip(',').strip()
                for q in range(k + 2, close):
                    tq = L.tok_text(text, toks[q])
                    if (toks[q][0] == 'ident' and tq in ('return', 'break', 'continue', 'await')) or tq == '?':
                        raise Undecided('option-map-match: closure body has non-local control flow')
                j = _recv_before(text, toks, i)
                start = toks[j + 1][1]
                recv = ' '.join(text[start:toks[i - 1][1]].split())
                if deref:
                    new = '(match %s { Some(%s) => { let %s = *%s; Some(%s) }, None => None })' % (recv, var, var, var, body)
                else:
                    new = '(match %s { Some(%s) => Some(%s), None => None })' % (recv, var, body)
                hit = (start, toks[close][2], new)
                break
        if not hit: break
        text = text[:hit[0]] + hit[2] + text[hit[1]:]
        n += 1
    return text, n


EXTRA_RULES = [
    ('if-let-some-ref', r'if let Some\(&(\w+)\) = ([^{;]+?) \{', r'if let Some(\1) = \2 { let \1 = *\1;',
     '`if let Some(&x) = E { B }` -> `if let Some(x) = E { let x = *x; B }`: the reference pattern `&x` against a `&T` '
     'binds a copy of the referent (T: Copy; rustc type-checks `*x` on the rewritten text). The matching `else` branch is untouched.'),
    ('drop-log', r'[ \t]*log::(?:debug|warn)!\((?:[^()]|\((?:[^()]|\([^()]*\))*\))*\);\n', '',
     '`log::debug!(..);` / `log::warn!(..);` statements removed: the macros only read their arguments (`{:?}` of a FileId, '
     '`Uri::as_str()`, both pure) and write to the global logger; no Vfs state is read-modified'),
    ('slice-to-vec', r'\berrors\.to_vec\(\)', 'vx_errors_to_vec(errors)',
     '`errors.to_vec()` on a `&[LuaParseError]` -> vx_errors_to_vec(errors): `<[T]>::to_vec` (T: Clone) has no vstd specification; '
     'the helper carries the std-doc contract restricted to what is used (a Vec of the same length; never panics)'),
]


# ---------------------------------------------------------------------------------------------
# contracts
# ---------------------------------------------------------------------------------------------
def vfs_fn(name, **kw):
    d = {'src': {'file': VFS, 'kind': 'fn', 'impl': 'Vfs', 'name': name}}
    d.update(kw)
    return d


def st(file, name, **kw):
    d = {'src': {'file': file, 'kind': 'struct', 'name': name}, 'rules': [('struct-fields', {})]}
    d.update(kw)
    return d


# the contract shared by set_file_content / set_remote_file_content (`remote` = the is_remote flag stored)
def set_content_ensures(remote):
    return '''
            vfs_wf(final(self)) /*@C22.vfs.wf-preserved*/,
            vfs_ids_ok(final(self)),
            (r.id as int) < final(self).file_data@.len(),
            final(self).emmyrc == old(self).emmyrc,
            // a text was submitted: it is stored, with the line index parsed from it and the tree parsed from it
            // under the configuration that is current NOW -- also when the same text was already stored
            data matches Some(text) ==> has_content(final(self), r) && content_of(final(self), r) == text@
                && final(self).file_data@[r.id as int]->0.is_remote == %s /*@C22.vfs.text-is-stored*/,
            data matches Some(text) ==> final(self).line_index_map@.contains_key(r)
                && final(self).line_index_map@[r] == sp_line_index(text@) /*@C22.vfs.line-index-is-parse-of-text*/,
            data matches Some(text) ==> final(self).tree_map@.contains_key(r)
                && final(self).tree_map@[r] == sp_tree(text@, cur_cfg(old(self))) /*@C09.vfs.tree-is-parse-under-current-config*/,
            // the text was withdrawn: no text, no line index, no tree
            data is None ==> final(self).file_data@[r.id as int] is None && !final(self).line_index_map@.contains_key(r)
                && !final(self).tree_map@.contains_key(r) /*@C10.vfs.withdrawn-text-leaves-no-entry*/,
            // frame
            others_untouched(old(self), final(self), r) /*@C22.vfs.other-files-untouched*/,
''' % remote


SET_REQ = '''keys_ok(), vfs_wf(old(self)), vfs_ids_ok(old(self)),
            old(self).file_data@.len() < u32::MAX,
            // panic obligation: `.expect("emmyrc set")`
            data is Some ==> old(self).emmyrc is Some'''

SET_PROOF_ALLOC = '''let ghost mid = *self;
        proof { lemma_alloc_keeps_wf(old(self), self, fid); }'''
SET_PROOF_END = '''proof { lemma_update_keeps_wf(&mid, self, fid); }'''

UNIT = {
    'extra_rules': EXTRA_RULES,
    'items': {
        'FileId': {'src': {'file': FID, 'kind': 'struct', 'name': 'FileId'},
                   'attrs': '#[derive(Clone, Copy, PartialEq, Eq, Hash)]'},
        'FileContent': {'src': {'file': VFS, 'kind': 'struct', 'name': 'FileContent'}, 'rules': [('struct-fields', {}), 'vis-pub']},
        'Vfs': st(VFS, 'Vfs'),
        'LuaDocument': st(DOC, 'LuaDocument'),
        'LuaDocument::new': {
            'src': {'file': DOC, 'kind': 'fn', 'impl': 'LuaDocument', 'name': 'new'}, 'ret': 'r',
            'ensures': 'r.file_id == file_id, r.path == path, r.text == text, r.line_index == line_index',
        },
        'Vfs::new': vfs_fn('new', ret='r', ensures='''
            vfs_wf(&r) /*@C22.vfs.new-wf*/, vfs_ids_ok(&r), r.file_data@.len() == 0, r.emmyrc is None,
            forall|u: Uri| !r.remote_file_id_map@.contains_key(u)'''),
        'Vfs::file_id': vfs_fn(
            'file_id', ret='r', rules=['drop-log', 'if-let-some-ref'],
            requires='keys_ok(), vfs_ids_ok(old(self)), old(self).file_data@.len() < u32::MAX',
            ensures='''
            vfs_ids_ok(final(self)) /*@C22.vfs.ids-ok-preserved*/,
            alloc_frame(old(self), final(self), r),
            // C10: the uri resolves to the returned id from now on (one id per uri, with or without a file path)
            local_id(final(self), uri) == Some(r) /*@C10.vfs.submitted-uri-resolves-to-its-id*/,
            // a uri with a path gets the id recorded for the path (allocated now if there was none); the remote/pathless table is untouched
            sp_uri_path(uri) matches Some(p) ==> final(self).file_id_map@.contains_key(p) && final(self).file_id_map@[p] == r.id
                && final(self).remote_file_id_map@ == old(self).remote_file_id_map@,
            // a uri without a path gets the id recorded for the uri in `remote_file_id_map` (allocated now if there was none); the path tables are untouched
            sp_uri_path(uri) is None ==> final(self).remote_file_id_map@.contains_key(*uri) && final(self).remote_file_id_map@[*uri] == r
                && final(self).file_id_map@ == old(self).file_id_map@ && final(self).file_path_map@ == old(self).file_path_map@,
            local_id(old(self), uri) matches Some(f) ==> r == f && same_id_tables(old(self), final(self)) && final(self).file_data@ == old(self).file_data@,
            local_id(old(self), uri) is None ==> r.id as int == old(self).file_data@.len()'''),
        'Vfs::virtual_file_id': vfs_fn(
            'virtual_file_id', ret='r',
            requires='keys_ok(), vfs_ids_ok(old(self)), old(self).file_data@.len() < u32::MAX',
            ensures='''
            vfs_ids_ok(final(self)) /*@C22.vfs.ids-ok-preserved*/,
            alloc_frame(old(self), final(self), r),
            final(self).file_id_map@ == old(self).file_id_map@, final(self).file_path_map@ == old(self).file_path_map@,
            final(self).remote_file_id_map@.contains_key(*uri) && final(self).remote_file_id_map@[*uri] == r,
            old(self).remote_file_id_map@.contains_key(*uri) ==> r == old(self).remote_file_id_map@[*uri]
                && final(self).remote_file_id_map@ == old(self).remote_file_id_map@ && final(self).file_data@ == old(self).file_data@,
            !old(self).remote_file_id_map@.contains_key(*uri) ==> r.id as int == old(self).file_data@.len()'''),
        'Vfs::get_file_id': vfs_fn(
            'get_file_id', ret='r', rules=[('option-copied', {'optional': True}), 'option-map-match'],
            requires='keys_ok()',
            ensures='r == local_id(self, uri) /*@C10.vfs.get-file-id-resolves-uri*/'),
        'Vfs::get_uri': vfs_fn(
            'get_uri', ret='r', requires='keys_ok()',
            ensures='r == (if self.file_path_map@.contains_key(id.id) { sp_path_uri(&self.file_path_map@[id.id]) } else { None })'),
        'Vfs::get_file_path': vfs_fn(
            'get_file_path', ret='r', requires='keys_ok()',
            ensures='''r matches Some(p) ==> self.file_path_map@.contains_key(id.id) && *p == self.file_path_map@[id.id],
            r is None ==> !self.file_path_map@.contains_key(id.id)'''),
        'Vfs::set_file_content': vfs_fn(
            'set_file_content', ret='r', rules=['drop-log', 'option-map-match'],
            requires=SET_REQ,
            ensures=set_content_ensures('false') + '''
            // C10: a submitted document must stay addressable by its uri, otherwise it can never be removed again
            // (and a re-submission would create a second copy)
            local_id(final(self), uri) == Some(r) /*@C10.vfs.submitted-uri-resolves-to-its-id*/,
            local_id(old(self), uri) matches Some(f) ==> r == f,
            sp_uri_path(uri) matches Some(p) ==> final(self).file_id_map@.contains_key(p) && final(self).file_id_map@[p] == r.id
                && final(self).remote_file_id_map@ == old(self).remote_file_id_map@,
            sp_uri_path(uri) is None ==> final(self).remote_file_id_map@.contains_key(*uri) && final(self).remote_file_id_map@[*uri] == r
                && final(self).file_id_map@ == old(self).file_id_map@ && final(self).file_path_map@ == old(self).file_path_map@''',
            proof=[(r'let fid = self\.file_id\(uri\);', 'after', SET_PROOF_ALLOC), (r'\n\s*fid\n', 'before', SET_PROOF_END)]),
        'Vfs::set_remote_file_content': vfs_fn(
            'set_remote_file_content', ret='r', rules=['drop-log', 'option-map-match'],
            requires=SET_REQ,
            ensures=set_content_ensures('true') + '''
            final(self).file_id_map@ == old(self).file_id_map@, final(self).file_path_map@ == old(self).file_path_map@,
            final(self).remote_file_id_map@.contains_key(*uri) && final(self).remote_file_id_map@[*uri] == r,
            old(self).remote_file_id_map@.contains_key(*uri) ==> r == old(self).remote_file_id_map@[*uri]''',
            proof=[(r'let fid = self\.virtual_file_id\(&uri\);', 'after', SET_PROOF_ALLOC), (r'\n\s*fid\n', 'before', SET_PROOF_END)]),
        'Vfs::remove_file': vfs_fn(
            'remove_file', ret='r',
            requires='keys_ok(), vfs_ids_ok(old(self))',
            proof=[(r'Some\(fid\)', 'before', 'proof { lemma_update_keeps_wf(old(self), self, fid); }')],
            ensures='''
            r == local_id(old(self), uri),
            vfs_ids_ok(final(self)) /*@C22.vfs.ids-ok-preserved*/,
            vfs_wf(old(self)) ==> vfs_wf(final(self)) /*@C22.vfs.wf-preserved*/,
            // the removed file leaves no entry: no path for the id, no id for the path (nor for any path),
            // no text, no line index, no tree
            r matches Some(f) ==> ({
                &&& !final(self).file_path_map@.contains_key(f.id)
                &&& (sp_uri_path(uri) matches Some(p) ==> !final(self).file_id_map@.contains_key(p))
                &&& (forall|q: PathBuf| #[trigger] final(self).file_id_map@.contains_key(q) ==> final(self).file_id_map@[q] != f.id)
                &&& (f.id as int) < final(self).file_data@.len() && final(self).file_data@[f.id as int] is None
                &&& !final(self).line_index_map@.contains_key(f)
                &&& !final(self).tree_map@.contains_key(f)
                // after the removal the uri no longer resolves -- with or without a file path
                &&& local_id(final(self), uri) is None
            }) /*@C10.vfs.removed-file-leaves-no-entry*/,
            // frame: nothing else changed
            r matches Some(f) ==> ({
                &&& (sp_uri_path(uri) matches Some(p) ==> final(self).file_path_map@ =~= old(self).file_path_map@.remove(f.id)
                        && final(self).file_id_map@ =~= old(self).file_id_map@.remove(p))
                &&& (sp_uri_path(uri) is None ==> final(self).file_path_map@ =~= old(self).file_path_map@
                        && final(self).file_id_map@ =~= old(self).file_id_map@)
                // the uri table loses exactly `*uri` when the removed id had no path entry (a document without a file path),
                // and is unchanged otherwise
                &&& (sp_uri_path(uri) is Some ==> final(self).remote_file_id_map@ =~= old(self).remote_file_id_map@)
                &&& (sp_uri_path(uri) is None ==> final(self).remote_file_id_map@ =~= old(self).remote_file_id_map@.remove(*uri))
                &&& final(self).file_data@ =~= old(self).file_data@.update(f.id as int, None)
                &&& final(self).line_index_map@ =~= old(self).line_index_map@.remove(f)
                &&& final(self).tree_map@ =~= old(self).tree_map@.remove(f)
            }) /*@C10.vfs.remove-frame*/,
            r is None ==> same_id_tables(old(self), final(self)) && same_file_tables(old(self), final(self)),
            // NOT cleaned: a REMOTE file registered (set_remote_file_content) under a uri that has a file path keeps its
            // remote_file_id_map entry -- remove_file resolves such a uri through file_id_map only
            final(self).emmyrc == old(self).emmyrc'''),
        'Vfs::update_config': vfs_fn(
            'update_config',
            ensures='''final(self).emmyrc == Some(emmyrc),
            // frame: no table is touched -- in particular every stored tree stays the one parsed under the PREVIOUS configuration
            same_id_tables(old(self), final(self)) && same_file_tables(old(self), final(self)) /*@C09.vfs.update-config-frame*/,
            vfs_wf(old(self)) ==> vfs_wf(final(self)) /*@C22.vfs.wf-preserved*/,
            vfs_ids_ok(old(self)) ==> vfs_ids_ok(final(self)) /*@C22.vfs.ids-ok-preserved*/'''),
        'Vfs::get_file_content': vfs_fn(
            'get_file_content', ret='r',
            # panic obligation: Vec index
            requires='(id.id as int) < self.file_data@.len()',
            ensures='''r is Some == has_content(self, *id),
            r matches Some(s) ==> s@ == content_of(self, *id) && *s == self.file_data@[id.id as int]->0.content'''),
        'Vfs::get_document': vfs_fn(
            'get_document', ret='r',
            # panic obligation: the Vec index inside get_file_content; it is guarded by the `file_path_map` lookup, so all
            # that is needed is the id-allocation invariant's clause "every id in file_path_map has a slot" (vfs_ids_ok ==> this)
            requires='keys_ok(), self.file_path_map@.contains_key(id.id) ==> (id.id as int) < self.file_data@.len()',
            ensures='''
            // under the representation invariant the document's line index is the one parsed from the document's text
            vfs_wf(self) ==> (r matches Some(d) ==> *d.line_index == sp_line_index(d.text@)) /*@C22.vfs.document-pairs-text-with-its-line-index*/,
            r matches Some(d) ==> d.text@ == content_of(self, *id) /*@C22.vfs.document-text-is-the-files-text*/,
            r matches Some(d) ==> *d.line_index == self.line_index_map@[*id] /*@C22.vfs.document-line-index-is-the-files-entry*/,
            r matches Some(d) ==> d.file_id == *id && *d.path == self.file_path_map@[id.id],
            r is Some <==> self.file_path_map@.contains_key(id.id) && has_content(self, *id)
                && self.line_index_map@.contains_key(*id) /*@C22.vfs.document-exists-iff*/,
            vfs_wf(self) ==> (r is Some <==> self.file_path_map@.contains_key(id.id) && has_content(self, *id)) /*@C22.vfs.document-exists-iff-wf*/'''),
        'Vfs::get_syntax_tree': vfs_fn(
            'get_syntax_tree', ret='r', requires='keys_ok()',
            ensures='''
            // under the representation invariant: a tree is handed out exactly for the files that have a text, and it is a parse of THAT text
            vfs_wf(self) ==> (r matches Some(t) ==> tree_of_text(*t, content_of(self, *id))) /*@C22.vfs.tree-is-parse-of-current-text*/,
            vfs_wf(self) ==> (r is Some <==> has_content(self, *id)),
            r matches Some(t) ==> self.tree_map@.contains_key(*id) && *t == self.tree_map@[*id] /*@C22.vfs.syntax-tree-is-the-files-entry*/,
            r is None ==> !self.tree_map@.contains_key(*id) /*@C22.vfs.syntax-tree-is-the-files-entry*/'''),
        'Vfs::get_file_parse_error': vfs_fn(
            'get_file_parse_error', ret='r', requires='keys_ok()', rules=['slice-to-vec'],
            ensures='''r is Some ==> self.tree_map@.contains_key(*id) && sp_tree_errors(&self.tree_map@[*id]).len() > 0,
            !self.tree_map@.contains_key(*id) ==> r is None'''),
        'Vfs::is_remote_file': vfs_fn(
            'is_remote_file', ret='r',
            ensures='r == (has_content(self, *id) && self.file_data@[id.id as int]->0.is_remote)'),
        'Vfs::clear': vfs_fn(
            'clear',
            ensures='''vfs_wf(final(self)) /*@C22.vfs.wf-preserved*/,
            final(self).file_data@.len() == 0, final(self).emmyrc is None,
            // NOT cleared: the remote-uri table; its ids now point past the end of `file_data`
            final(self).remote_file_id_map@ == old(self).remote_file_id_map@,
            (forall|u: Uri| !old(self).remote_file_id_map@.contains_key(u)) ==> vfs_ids_ok(final(self))'''),
    },
    'allow': [r'external_body', r'uninterp spec fn sp_'],
    'min_obligations': 20,
    'trusted': [
        'hashbrown::HashMap -> std::collections::HashMap (same API subset: new/get/insert/remove/clear; iteration order never relied on)',
        'opaque shims: lsp_types::Uri, std::path::PathBuf, rowan::NodeCache, emmylua_parser::{LineIndex, LuaSyntaxTree, LuaParseError, ParserConfig}, crate::Emmyrc',
        'LineIndex::parse(text) == sp_line_index(text@): a function of the text only (WHAT it returns is unit c22_lineindex)',
        'LuaParser::parse(text, config) == sp_tree(text@, sp_cfg_of(config)) and Emmyrc::get_parse_config(&self, cache): sp_cfg_of(r) == sp_cfg(self): '
        'the tree is a function of the text and of the Emmyrc; the NodeCache (rowan green-node interner) passed along does not influence its value',
        'uri_to_file_path / file_path_to_uri are pure functions of their argument (sp_uri_path / sp_path_uri); `cfg!(windows)` is a build constant',
        'Clone for Uri / PathBuf / LuaParseError returns an equal value; NodeCache::default() unspecified',
        'keys_ok(): obeys_key_model for FileId (derived Hash/Eq), PathBuf (std), Uri (lsp_types) is a PRECONDITION of every fn that touches a map; u32 by vstd',
        'LuaSyntaxTree::get_errors uninterpreted (sp_tree_errors); vx_errors_to_vec: `<[T]>::to_vec` returns a Vec of the same length',
        'vstd specifications of Vec::{new,len,push,clear,get,get_mut,index,index-assignment}, HashMap::{new,get,insert,remove,clear}, Option::{as_ref,expect,take}, `?` on Option',
        'capacity: fewer than u32::MAX ids allocated so far is a PRECONDITION of the id-allocating fns (`len() as u32` would wrap otherwise)',
    ],
    'not_covered': [
        'Vfs::get_all_file_ids, Vfs::get_all_local_file_ids: iterator adapters (enumerate/filter_map/collect) are outside the dialect; no contract (unit c09_reindex keeps them uninterpreted)',
        'LuaDocument methods other than `new` (position arithmetic is unit c22_lineindex)',
        '`impl Default for Vfs` (calls new)',
        'the claim that every caller maintains vfs_wf / vfs_ids_ok: all fields of Vfs are private to vfs/mod.rs and every &mut fn of the module is under contract here '
        '(new establishes both; file_id, virtual_file_id, set_file_content, set_remote_file_content, remove_file, update_config preserve both; clear preserves vfs_wf only)',
    ],
    'samples': [
        'set_file_content(uri, Some(t)): line_index_map[fid] == sp_line_index(t@) and tree_map[fid] == sp_tree(t@, sp_cfg(current emmyrc)) -- unconditionally, also for an unchanged text',
        'get_document(id) == Some(d) ==> d.text@ is the stored text of id and *d.line_index == line_index_map[id]; under vfs_wf: *d.line_index == sp_line_index(d.text@)',
        'file_id / set_file_content(uri, ..) == r ==> get_file_id(uri) == Some(r) afterwards, for a uri with a path (file_id_map) and for one without (remote_file_id_map)',
        'remove_file(uri) == Some(f) ==> f is absent from file_path_map, line_index_map, tree_map; file_data[f] is None; no path maps to f any more; get_file_id(uri) is None afterwards (also for a uri without a file path)',
        'update_config: every table unchanged (trees stay parsed under the previous configuration until the text is re-submitted)',
    ],
    'mutants': [
        # a re-submission of an unchanged text after `update_config` must still re-parse under the new configuration
        {'name': 'skip-reparse-when-text-unchanged', 'item': 'Vfs::set_file_content',
         'pattern': r'let fid = self\.file_id\(uri\);',
         'repl': 'let fid = self.file_id(uri);\n        if let Some(new_text) = &data { if let Some(old_c) = &self.file_data[fid.id as usize] '
                 '{ if !old_c.is_remote && old_c.content == *new_text { proof { assert(has_content(self, fid) && content_of(self, fid) == new_text@); } return fid; } } }',
         'expect': r'C09\.vfs\.tree-is-parse-under-current-config'},
        # the defect repaired in /repo: a uri without a file path got a fresh, unrecorded id on every call
        {'name': 'pathless-uri-gets-fresh-id', 'item': 'Vfs::file_id',
         'pattern': r'return self\.virtual_file_id\(uri\);',
         'repl': 'let id = self.file_data.len() as u32; self.file_data.push(None); return FileId { id };',
         'expect': r'C10\.vfs\.submitted-uri-resolves-to-its-id'},
        {'name': 'get-file-id-ignores-pathless-uris', 'item': 'Vfs::get_file_id',
         'pattern': r'return self\.remote_file_id_map\.get\(uri\)\.copied\(\);', 'repl': 'return None;',
         'expect': r'C10\.vfs\.get-file-id-resolves-uri'},
        {'name': 'line-index-under-wrong-id', 'item': 'Vfs::set_file_content',
         'pattern': r'self\.line_index_map\.insert\(fid, line_index\);', 'repl': 'self.line_index_map.insert(FileId { id: 0 }, line_index);',
         'expect': r'C22\.vfs\.line-index-is-parse-of-text'},
        {'name': 'withdraw-keeps-line-index', 'item': 'Vfs::set_file_content',
         'pattern': r'self\.line_index_map\.remove\(&fid\);', 'repl': '',
         'expect': r'C10\.vfs\.withdrawn-text-leaves-no-entry'},
        {'name': 'remote-withdraw-keeps-tree', 'item': 'Vfs::set_remote_file_content',
         'pattern': r'self\.tree_map\.remove\(&fid\);', 'repl': '',
         'expect': r'C10\.vfs\.withdrawn-text-leaves-no-entry'},
        {'name': 'remote-tree-under-wrong-id', 'item': 'Vfs::set_remote_file_content',
         'pattern': r'self\.tree_map\.insert\(fid, tree\);', 'repl': 'self.tree_map.insert(FileId { id: 0 }, tree);',
         'expect': r'C09\.vfs\.tree-is-parse-under-current-config'},
        {'name': 'remove-file-keeps-tree', 'item': 'Vfs::remove_file',
         'pattern': r'self\.tree_map\.remove\(&fid\);', 'repl': '',
         'expect': r'C10\.vfs\.removed-file-leaves-no-entry'},
        {'name': 'remove-file-keeps-text', 'item': 'Vfs::remove_file',
         'pattern': r'data\.take\(\);', 'repl': '',
         'expect': r'C10\.vfs\.removed-file-leaves-no-entry'},
        {'name': 'remove-file-keeps-pathless-uri-entry', 'item': 'Vfs::remove_file',
         'pattern': r'\} else \{\s*(?://[^\n]*\n\s*)*self\.remote_file_id_map\.remove\(uri\);\s*\}', 'repl': '}',
         'expect': r'C10\.vfs\.removed-file-leaves-no-entry'},
        {'name': 'remove-file-keeps-path-to-id', 'item': 'Vfs::remove_file',
         'pattern': r'self\.file_id_map\.remove\(&path\);', 'repl': '',
         'expect': r'C10\.vfs\.removed-file-leaves-no-entry'},
        {'name': 'document-with-other-files-line-index', 'item': 'Vfs::get_document',
         'pattern': r'self\.line_index_map\.get\(id\)\?', 'repl': 'self.line_index_map.get(&FileId { id: 0 })?',
         'expect': r'C22\.vfs\.document-pairs-text-with-its-line-index'},
        {'name': 'syntax-tree-of-another-file', 'item': 'Vfs::get_syntax_tree',
         'pattern': r'self\.tree_map\.get\(id\)', 'repl': 'self.tree_map.get(&FileId { id: 0 })',
         'expect': r'C22\.vfs\.tree-is-parse-of-current-text'},
        {'name': 'tree-parsed-from-another-text', 'item': 'Vfs::set_file_content',
         'pattern': r'LuaParser::parse\(data, parse_config\)', 'repl': 'LuaParser::parse("", parse_config)',
         'expect': r'C09\.vfs\.tree-is-parse-under-current-config'},
        {'name': 'update-config-drops-trees', 'item': 'Vfs::update_config',
         'pattern': r'self\.emmyrc = Some\(emmyrc\);', 'repl': 'self.emmyrc = Some(emmyrc); self.tree_map.clear();',
         'expect': r'C09\.vfs\.update-config-frame'},
    ],
}
