// NOT part of the unit (the assembler reads template.rs only). Concrete public-API histories on the REAL Vfs that back the
// findings reported for unit c22_vfs. Build as a scratch crate: Cargo.toml/Cargo.lock as in /verif/replay/c22 (deps
// emmylua_code_analysis, emmylua_parser by path to /repo; emmy_lsp_types), this file as src/main.rs, `cargo run --offline`.
// Observed output BEFORE the repair of Vfs::file_id / get_file_id (git HEAD of /repo, 2026-09-21):
//   H1 new(); get_file_content(FileId 0): PANIC index out of bounds: the len is 0 but the index is 0
//   H1b new(); get_document(FileId 0): ok false
//   H1c new(); is_remote_file(FileId 7): ok false
//   H2 new(); set_file_content(local, Some): PANIC emmyrc set
//   H2b new(); set_file_content(local, None): ok FileId { id: 0 }
//   H3 remote; clear; remote: PANIC index out of bounds: the len is 0 but the index is 0
//   H4 remote; clear; local; remote: ok (FileId { id: 0 }, FileId { id: 0 }, FileId { id: 0 }, Some("remote-2"), Some(("/ws/a.lua", "remote-2")), true, [])
//   H5 remote document: ok (FileId { id: 0 }, false, Some("a"), true)
//   H6 pathless uri twice: ok (FileId { id: 0 }, FileId { id: 1 }, FileId { id: 2 }, [FileId { id: 0 }, FileId { id: 1 }], None, None, Some("one"))
//   H7 remove_file does not touch the remote entry of the same uri: ok (FileId { id: 0 }, FileId { id: 1 }, Some(FileId { id: 0 }), [FileId { id: 1 }], Some("R2"), FileId { id: 1 })
//   H8 remove then re-add allocates a new id: ok (FileId { id: 0 }, Some(FileId { id: 0 }), FileId { id: 1 }, [FileId { id: 1 }])
// Observed output AFTER the repair (uncommitted working tree of /repo: pathless uris go through remote_file_id_map):
//   H1 new(); get_file_content(FileId 0): PANIC index out of bounds: the len is 0 but the index is 0
//   H1b new(); get_document(FileId 0): ok false
//   H1c new(); is_remote_file(FileId 7): ok false
//   H2 new(); set_file_content(local, Some): PANIC emmyrc set
//   H2b new(); set_file_content(local, None): ok FileId { id: 0 }
//   H3 remote; clear; remote: PANIC index out of bounds: the len is 0 but the index is 0
//   H4 remote; clear; local; remote: ok (FileId { id: 0 }, FileId { id: 0 }, FileId { id: 0 }, Some("remote-2"), Some(("/ws/a.lua", "remote-2")), true, [])
//   H5 remote document: ok (FileId { id: 0 }, false, Some("a"), true)
//   H6 pathless uri twice: ok (FileId { id: 0 }, FileId { id: 0 }, FileId { id: 0 }, [], Some(FileId { id: 0 }), Some(FileId { id: 0 }), None)
//   H7 remove_file does not touch the remote entry of the same uri: ok (FileId { id: 0 }, FileId { id: 1 }, Some(FileId { id: 0 }), [FileId { id: 1 }], Some("R2"), FileId { id: 1 })
//   H8 remove then re-add allocates a new id: ok (FileId { id: 0 }, Some(FileId { id: 0 }), FileId { id: 1 }, [FileId { id: 1 }])
//   H9 pathless uri: submit, resubmit, remove, lookup, resubmit: ok (FileId { id: 0 }, FileId { id: 0 }, [FileId { id: 0 }], Some(FileId { id: 0 }), Some(FileId { id: 0 }), Some(FileId { id: 0 }), Some(FileId { id: 0 }), [], FileId { id: 0 }, Some("three"))
//   H10 same pathless uri as local and as remote share one id: ok (FileId { id: 0 }, FileId { id: 0 }, true, Some("remote"), [])
// Observed output on /repo 455b3ae (remove_file also drops the uri entry of a document without a file path):
//   H9 pathless uri: submit, resubmit, remove, lookup, resubmit: ok (FileId { id: 0 }, FileId { id: 0 }, [FileId { id: 0 }], Some(FileId { id: 0 }), Some(FileId { id: 0 }), None, None, [], FileId { id: 1 }, Some("three"))
//   (all other histories as after the first repair)
use emmylua_code_analysis::{Emmyrc, FileId, Vfs};
use lsp_types::Uri;
use std::panic::{catch_unwind, AssertUnwindSafe};
use std::str::FromStr;
use std::sync::Arc;

fn cfg() -> Arc<Emmyrc> { Arc::new(Emmyrc::default()) }
fn show<T: std::fmt::Debug>(name: &str, f: impl FnOnce() -> T) {
    match catch_unwind(AssertUnwindSafe(f)) {
        Ok(v) => println!("{name}: ok {v:?}"),
        Err(e) => println!("{name}: PANIC {}", e.downcast_ref::<String>().cloned().or(e.downcast_ref::<&str>().map(|s| s.to_string())).unwrap_or_default()),
    }
}
fn main() {
    let local = Uri::from_str("file:///ws/a.lua").unwrap();
    let remote = Uri::from_str("remote://host/r.lua").unwrap();
    let untitled = Uri::from_str("untitled:Untitled-1").unwrap();
    show("H1 new(); get_file_content(FileId 0)", || { let v = Vfs::new(); v.get_file_content(&FileId::new(0)).cloned() });
    show("H1b new(); get_document(FileId 0)", || { let v = Vfs::new(); v.get_document(&FileId::new(0)).is_some() });
    show("H1c new(); is_remote_file(FileId 7)", || { let v = Vfs::new(); v.is_remote_file(&FileId::new(7)) });
    show("H2 new(); set_file_content(local, Some)", || { let mut v = Vfs::new(); v.set_file_content(&local, Some("x".into())) });
    show("H2b new(); set_file_content(local, None)", || { let mut v = Vfs::new(); v.set_file_content(&local, None) });
    show("H3 remote; clear; remote", || {
        let mut v = Vfs::new(); v.update_config(cfg());
        let a = v.set_remote_file_content(&remote, Some("a".into()));
        v.clear(); v.update_config(cfg());
        let b = v.set_remote_file_content(&remote, Some("b".into()));
        (a, b)
    });
    show("H4 remote; clear; local; remote", || {
        let mut v = Vfs::new(); v.update_config(cfg());
        let a = v.set_remote_file_content(&remote, Some("remote-1".into()));
        v.clear(); v.update_config(cfg());
        let l = v.set_file_content(&local, Some("local".into()));
        let b = v.set_remote_file_content(&remote, Some("remote-2".into()));
        let doc = v.get_document(&l).map(|d| (d.get_file_path().clone(), d.get_text().to_string()));
        (a, l, b, v.get_file_content(&l).cloned(), doc, v.is_remote_file(&l), v.get_all_local_file_ids())
    });
    show("H5 remote document", || {
        let mut v = Vfs::new(); v.update_config(cfg());
        let a = v.set_remote_file_content(&remote, Some("a".into()));
        (a, v.get_document(&a).is_some(), v.get_file_content(&a).cloned(), v.get_syntax_tree(&a).is_some())
    });
    show("H6 pathless uri twice", || {
        let mut v = Vfs::new(); v.update_config(cfg());
        let a = v.set_file_content(&untitled, Some("one".into()));
        let b = v.set_file_content(&untitled, Some("two".into()));
        let c = v.set_file_content(&untitled, None);
        (a, b, c, v.get_all_file_ids(), v.get_file_id(&untitled), v.remove_file(&untitled), v.get_file_content(&a).cloned())
    });
    show("H7 remove_file does not touch the remote entry of the same uri", || {
        let mut v = Vfs::new(); v.update_config(cfg());
        let l = v.set_file_content(&local, Some("L".into()));
        let r = v.set_remote_file_content(&local, Some("R".into()));
        let rm = v.remove_file(&local);
        let r2 = v.set_remote_file_content(&local, Some("R2".into()));
        (l, r, rm, v.get_all_file_ids(), v.get_file_content(&r).cloned(), r2)
    });
    show("H8 remove then re-add allocates a new id", || {
        let mut v = Vfs::new(); v.update_config(cfg());
        let a = v.set_file_content(&local, Some("L".into()));
        let rm = v.remove_file(&local);
        let b = v.set_file_content(&local, Some("L".into()));
        (a, rm, b, v.get_all_file_ids())
    });
    show("H9 pathless uri: submit, resubmit, remove, lookup, resubmit", || {
        let mut v = Vfs::new(); v.update_config(cfg());
        let a = v.set_file_content(&untitled, Some("one".into()));
        let b = v.set_file_content(&untitled, Some("two".into()));
        let ids = v.get_all_file_ids();
        let g1 = v.get_file_id(&untitled);
        let rm = v.remove_file(&untitled);
        let g2 = v.get_file_id(&untitled);
        let rm2 = v.remove_file(&untitled);
        let ids2 = v.get_all_file_ids();
        let c = v.set_file_content(&untitled, Some("three".into()));
        (a, b, ids, g1, rm, g2, rm2, ids2, c, v.get_file_content(&c).cloned())
    });
    show("H10 same pathless uri as local and as remote share one id", || {
        let mut v = Vfs::new(); v.update_config(cfg());
        let a = v.set_file_content(&untitled, Some("local".into()));
        let b = v.set_remote_file_content(&untitled, Some("remote".into()));
        (a, b, v.is_remote_file(&a), v.get_file_content(&a).cloned(), v.get_all_local_file_ids())
    });
}
