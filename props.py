"""property -> units / engines / scope notes. Read by vc/driver.py."""
PROPS = {
    'C20': {
        'units': [{'unit': 'c20_config'}],
        'level': 'proof',
        'level_text': 'Verus discharges, for every state of the indexes and every configuration, the precedence chain of is_checker_enable_by_code, the report/skip/severity contract of add_diagnostic and get_severity, and the enable/library guards of diagnose_file, on the function text extracted from /repo on each run. Unbounded: no input is sampled.',
        'level_note': 'index lookups, default tables, translate_range and check_file are uninterpreted (weakest contract); LuaDiagnosticConfig::new and the globals/globalsRegex guard are not covered; frame of `diagnostics` by module privacy + scan; Verus/Z3/rustc trusted',
        'not_covered': [
            'LuaDiagnosticConfig::new (iterator pipelines): the mapping diagnostics.disable -> workspace_disabled etc. is assumed',
            'the ~50 checkers reach the diagnostics list only through add_diagnostic (scan, not proof)',
        ],
    },
    'C19': {
        'units': [{'unit': 'c19_match'}],
        'engines': [
            {'kind': 'kani', 'tier': 'thorough', 'crate': 'c19',
             'harnesses': [
                 {'name': 'is_match_contract', 'assert_tag': 'C19.is_match', 'label': 'C19.match.contract',
                  'params': ['a0', 'a1', 'd0', 'd1', 'kind_sel', 'same_code', 'is_disable']},
                 {'name': 'is_match_reachable', 'covers_required': True},
             ]},
        ],
        'counterexample_engine': {'kind': 'kani', 'crate': 'c19', 'harnesses': [
            {'name': 'is_match_contract', 'assert_tag': 'C19.is_match', 'label': 'C19.match.contract',
             'params': ['a0', 'a1', 'd0', 'd1', 'kind_sel', 'same_code', 'is_disable']}], 'for': r'DiagnosticAction::is_match'},
        'level': 'proof',
        'level_text': 'Verus proves, for all ranges, kinds and codes, that DiagnosticAction::is_match returns true exactly when the suppression region shares a byte with the diagnostic (or contains a zero-width one) and the kind/code matches, and that the per-file scan returns true exactly when some recorded region matches; in the thorough tier Kani/CBMC proves the same is_match contract on the compiled real crate over the full u32 domain (loop-free, complete) and supplies the counterexample on failure.',
        'level_note': 'text-size shim (cross-checked by Kani), DiagnosticCode/FileId opaque with obeys_key_model; the construction of the regions (disable-next-line / disable-line / block ranges) is covered by unit c19_ranges when present, otherwise not covered',
        'not_covered': ['analyze_diagnostic_* AST plumbing (which comment owns which block)', 'checkers that bypass add_diagnostic (none found by scan)'],
    },
    'C36': {
        'units': [{'unit': 'c36_exit'}],
        'level': 'proof',
        'level_text': 'Verus proves on the extracted body of output_result\'s receive loop, for every diagnostics vector, filter and flag: the writer is handed exactly the order-preserving sub-list that passes --severity, once, under its own file id; the error flag becomes true exactly when a reported diagnostic is an error or (with --warnings-as-errors) a warning; the returned status is non-zero exactly when the flag is set. DiagnosticSeverityFilter::allows is proved against the threshold table.',
        'level_note': 'Vec::retain std contract assumed; the async channel/termination logic (count == total_count) and the three writers\' formatting (text/JSON/SARIF) are not covered: the writers are abstracted to a ghost log; counters are usize (no overflow below 2^64 diagnostics)',
        'not_covered': ['channel receive loop / completion count (async)', 'JSON, SARIF and text writers: that each logged diagnostic is rendered once under its file', 'main-workspace file selection (get_main_workspace_file_ids)'],
    },
}
