"""property -> units / engines / scope notes. Read by vc/driver.py."""
PROPS = {
    'C20': {
        'units': [{'unit': 'c20_config'}],
        'level': 'proof',
        'level_text': 'Verus discharges, for every state of the indexes and every configuration, the precedence chain of is_checker_enable_by_code, the report/skip/severity contract of add_diagnostic and get_severity, and the enable/library guards of diagnose_file, on the function text extracted from /repo on each run. Unbounded: no input is sampled.',
        'level_note': 'index lookups, default tables, translate_range and check_file are uninterpreted (weakest contract); LuaDiagnosticConfig::new and the globals/globalsRegex guard are not covered; frame of `diagnostics` by module privacy + scan; Verus/Z3/rustc trusted',
        'not_covered': [
            'LuaDiagnosticConfig::new (iterator pipelines): the mapping diagnostics.disable -> workspace_disabled etc. is assumed',
            'the ~50 checkers reach the diagnostics list only through add_diagnostic (scan, not proof)',
        ],
    },
}
