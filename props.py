"""property -> units / engines / scope notes. Read by vc/driver.py."""
PROPS = {
    'C20': {
        # the file-level enable/disable sets the precedence chain consults must not outlive the text that declared
        # them: DiagnosticIndex::remove (unit c10_remove) is part of C20's argument
        'units': [{'unit': 'c20_config'}, {'unit': 'c10_remove', 'labels': [r'C10\.diagnostic\.', r'C10\.DbIndex\.diagnostic_index']},
                  # LuaDiagnosticConfig::new builds the sets the precedence chain reads faithfully from the configuration
                  {'unit': 'c20_inputs', 'labels': [r'C20\.config', r'^(?!.*\[C(19|20)\.).*$']},
                  # the globals guard of the undefined-global checker and the real DiagnosticIndex writers
                  {'unit': 'c20_globals', 'labels': [r'C20\.', r'^(?!.*\[C(19|20)\.).*$']},
                  # "meta files report nothing": the ---@meta tag marks the file's module entry meta on every path (also when ---@meta <name> re-registers the module)
                  {'unit': 'c10_module', 'labels': [r'C20\.']}],
        'replays': [{'for': r'$^', 'driver': 'replay/c20', 'bin': 'replay', 'args': {'mode': 'search'}, 'thorough': True, 'on_undecided': True,
                     'history': 'generated configurations (one file or a merged global + project pair through the real loader: disable / enables / severity / globals / globalsRegex) x generated files (plain, four meta forms, library, std, file-level enable / disable headers) x 1-3 step histories of one uri; every diagnostic list checked against the five sentences of the statement'}],
        'level': 'proof',
        'level_text': 'Verus discharges, for every state of the indexes and every configuration, the precedence chain of is_checker_enable_by_code, the report/skip/severity contract of add_diagnostic and get_severity, and the enable/library guards of diagnose_file, on the function text extracted from /repo on each run. Unbounded: no input is sampled.',
        'level_note': 'index lookups, default tables, translate_range and check_file are uninterpreted (weakest contract); LuaDiagnosticConfig::new is proved in unit c20_inputs (sets/maps are exactly the configured lists); the globals/globalsRegex guard (check_name_expr of undefined_global.rs) and the DiagnosticIndex writers are proved in unit c20_globals; which globalsRegex patterns compile / what they match is not covered; frame of `diagnostics` by module privacy + scan; Verus/Z3/rustc trusted',
        'not_covered': [
            'globalsRegex compilation (Regex::new results unconstrained)',
            'the ~50 checkers reach the diagnostics list only through add_diagnostic (scan, not proof)',
            'a file without a module entry (remote document, outside every root) is never marked meta: the meta clause is proved for files that have one',
        ],
    },
    'C19': {
        'units': [{'unit': 'c19_match'}, {'unit': 'c22_lineindex', 'labels': [r'\[C19\.']},
                  # suppression regions / file-level sets recorded for a text must be dropped when the file is re-indexed
                  {'unit': 'c10_remove', 'labels': [r'C10\.diagnostic\.', r'C10\.DbIndex\.diagnostic_index']},
                  # code-list handling of the suppression comments (statement slices of diagnostic_tags.rs)
                  {'unit': 'c20_inputs', 'labels': [r'C19\.tags', r'^(?!.*\[C(19|20)\.).*$']},
                  {'unit': 'c20_globals', 'labels': [r'C19\.index']}],
        'engines': [
            {'kind': 'kani', 'tier': 'thorough', 'crate': 'shims',
             'harnesses': [{'name': 'proofs::textsize_conversions_and_order', 'assert_tag': 'SHIM', 'label': 'shim.textsize'},
                           {'name': 'proofs::textrange_ops', 'assert_tag': 'SHIM', 'label': 'shim.textrange'}]},
            {'kind': 'kani', 'tier': 'thorough', 'crate': 'c19',
             'harnesses': [
                 {'name': 'is_match_contract', 'assert_tag': 'C19.is_match', 'label': 'C19.match.contract',
                  'params': ['a0', 'a1', 'd0', 'd1', 'kind_sel', 'same_code', 'is_disable']},
                 {'name': 'is_match_reachable', 'covers_required': True},
             ]},
        ],
        'replays': [{'for': r'diagnostic_tags|analyze_diagnostic', 'driver': 'replay/c19', 'bin': 'replay', 'args': {'mode': 'search'}, 'quick': True, 'on_undecided': True,
                     'history': 'generated programs with one suppression comment (3 forms x 7 code lists x 5 positions); diagnose; compare with the statement of C19'}],
        'counterexample_engine': {'kind': 'kani', 'crate': 'c19', 'harnesses': [
            {'name': 'is_match_contract', 'assert_tag': 'C19.is_match', 'label': 'C19.match.contract',
             'params': ['a0', 'a1', 'd0', 'd1', 'kind_sel', 'same_code', 'is_disable']}], 'for': r'DiagnosticAction::is_match'},
        'level': 'proof',
        'level_text': 'Verus proves, for all ranges, kinds and codes, that DiagnosticAction::is_match returns true exactly when the suppression region shares a byte with the diagnostic (or contains a zero-width one) and the kind/code matches, and that the per-file scan returns true exactly when some recorded region matches; in the thorough tier Kani/CBMC proves the same is_match contract on the compiled real crate over the full u32 domain (loop-free, complete) and supplies the counterexample on failure.',
        'level_note': 'text-size shim (cross-checked by Kani), DiagnosticCode/FileId opaque with obeys_key_model; the regions of disable-next-line ([comment start, end of the line after the last line of the comment)) and disable-line (exactly the line of the comment) are proved on the extracted statement slices of diagnostic_tags.rs in unit c22_lineindex (labels C19.*) using the LuaDocument contracts; the block range of `disable` comes from the AST (not covered)',
        'not_covered': ['analyze_diagnostic_* AST plumbing (which comment owns which block)', 'checkers that bypass add_diagnostic (none found by scan)'],
    },
    'C24': {
        'units': [{'unit': 'c24_dispatch'}],
        'replays': [{'for': r'malformed-params-answered|C24\.initialize', 'driver': 'replay/c24', 'bin': 'replay', 'args': {'mode': 'all'}, 'thorough': True, 'on_undecided': True,
                     'history': 'the real server (emmylua_ls::run_ls over stdio, re-executed as a child process): initialize, then requests with bogus / absent / wrongly typed params, an unknown method, a later well-formed request; a malformed initialize followed by a well-formed one; every id must get exactly one response'}],
        'level': 'proof',
        'level_text': 'The routing layer, on the real text, under the sequential-schedule abstraction of tokio (named rules async-seq-*): for EVERY request (any method string, any params) on_request_handler returns Ok(()) and the ghost log of responses handed to the connection grows by exactly one response carrying the request id - a registered method whose params deserialize is routed to its handler task (ServerContext::task sends exactly one of RequestCanceled / InternalError / the handler\'s response and removes the cancellation entry), an unknown method gets MethodNotFound, a registered method with malformed or missing params gets InvalidParams; the `dispatch_request!` macro is expanded by a unit-local rule that implements the macro definition read from the repository on every run (~40 arms); the initialize handshake of run_ls answers every initialize request exactly once (a malformed one with an error, then waits for the next) and completes; ServerMessageProcessor::handle_message answers every request and shutdown once and keeps serving; ServerContext::send / cancel.',
        'level_note': 'assumed: every spawned task runs its body to completion exactly once (real tokio scheduling, a handler that PANICS - its id then gets no response: C25/C12 territory - duplicate request ids in flight, the transport are not modelled); is_cancelled an arbitrary bool; lsp_server 0.7.9 shims transcribed from its source (extract: Ok iff method matches and params deserialize); the macro-expansion rule is not rustc\'s expander (cross-checked by the replay on the compiled server); notifications, the routing of $/cancelRequest to cancel, handle_shutdown and the run / wait_for_initialization loops are not covered',
        'not_covered': ['handlers that panic', 'notifications incl. $/cancelRequest routing', 'real task scheduling', 'transport / framing'],
    },
    'C32': {
        'units': [{'unit': 'c32_merge', 'labels': [r'C32\.', r'^(?!.*\[C3[12]\.).*$']}],
        'replays': [{'for': r'$^', 'driver': 'replay/c32', 'bin': 'replay', 'args': {'mode': 'search'}, 'thorough': True, 'quick': True, 'on_undecided': True,
                     'history': 'generated lists of 1-3 config files over real settings, each spelled flat / nested / mixed, with scalar+prefix collisions and non-string array elements; oracle computed independently from the statement (paths denoted, later file wins, arrays appended without duplicates); 30 in-process loads + 3 child processes must agree; re-spelling must not change the result'},
                    {'for': r'C32\.', 'driver': 'replay/c32', 'bin': 'replay', 'thorough': True, 'quick': True,
                     'history': 'load_configs_raw on 14 concrete file lists: the same array from two files, overlapping arrays, a flat key then the nested spelling (and the reverse), keys with empty segments; expected merged configuration compared'}],
        'level': 'proof',
        'level_text': 'On the real flatten_object / FlattenConfigObject::{parse,to_emmyrc} / to_emmyrc_json / merge_values and the merging tail of load_configs_raw (serde_json::Value and Map shimmed as data types with their documented operations), for every JSON value and every list of files: parse yields exactly the (dotted path -> leaf) pairs the value denotes, where a flat key "a.b" at any depth denotes the same path as the nested form (flat equals nested); to_emmyrc_json builds the nested form of the flat map for an ARBITRARY iteration order of the hash map and no other value qualifies (deterministic, order-independent); merge_values merges objects member by member, appends to an array exactly the later elements that are not yet present (no duplicates), and otherwise takes the later value; for file lists in which no file spells one setting twice and no setting lies below another one, the loaded configuration is the nested form of "for every path, the leaf of the LAST file that sets it" (later file wins whichever spelling each file uses).',
        'level_note': 'serde_json::Value / Map, hashbrown HashMap<String, Value>, HashSet<Value> are shims with their documented contracts (iteration order left unspecified: nothing proved depends on it); split(\'.\') / format!("{}.{}") as helpers with std-doc specs; the reading half (files, JSON / Lua parsing, serde into Emmyrc) is not under contract; for file lists outside files_ok (one file spelling a setting twice, "a": 1 next to "a.b": 2) only no-panic, the array clause, the parse contract and order-independence are proved - the property does not say which shape wins there',
        'not_covered': ['file reading, JSON / Lua parsing, serde deserialisation into Emmyrc', 'which of two spellings inside ONE file is kept', 'workspace_manager: the order in which config files are collected'],
    },
    'C33': {
        'units': [{'unit': 'c10_module', 'labels': [r'C33\.', r'^(?!.*\[C(09|10|20|33)\.).*$']}],
        'replays': [{'for': r'$^', 'driver': 'replay/c33', 'bin': 'replay', 'args': {'mode': 'search'}, 'thorough': True, 'on_undecided': True,
                     'history': 'generated workspaces (files and directories with the same name, same module name under different directories, module maps, custom patterns, both strict modes) and histories (add, resolve, remove a sibling / the last child, remove the target, re-add) against an oracle computed from the statement; each history repeated in fresh analyses and child processes'}],
        'level': 'proof',
        'level_text': 'Clause-level, on the real LuaModuleIndex (unit c10_module), for every index state satisfying the tree invariant module_wf (proved to be established by new/clear and preserved by every writer) and every path: add_module_by_module_path / add_module_by_path register the file at exactly the node reached from the root by the dotted parts of its module path, list it there once and leave every other registration untouched; exact_find_module / find_module_by_normalized_path / find_module_node return exactly the registration reached by the parts of the required path (the only file of the node, else the first non-hidden, else the first); find_module tries the exact path first and answers with it whenever it exists (exact before mapped before fuzzy); after remove(file) a path that only that file registered resolves to nothing (lemma_removed_is_unresolvable).',
        'level_note': 'NOT decided: the pattern / moduleMap layer (extract_module_path, replace_module_path: regex, Path and string splitting are uninterpreted functions of the state they read), fuzzy_find_module (no contract: the fuzzy fallback and its tie-break), go-to-definition on the require string and the inferred module type (handlers / inference). Determinism: the choice among several files registered under ONE module name is a function of the ORDER of registrations (the first visible file of the node): re-submitting an unchanged file moves it behind its duplicates (a.lua and a/init.lua: require "a" switches from a.lua to a/init.lua after a.lua is edited) - proved as lemma_resubmission_changes_choice from the exact contracts, recorded in DESIGN.md section 7 as an observation, no obligation of this check states history independence; split(\'.\') / join / to_string are std contracts (external_body helpers whose body is the call)',
        'not_covered': ['pattern matching ?.lua / ?/init.lua / custom patterns and moduleMap rewrites', 'fuzzy suffix search and its ranking', 'agreement of go-to-definition and the inferred module type with find_module', 'history independence of the choice among files that share a module name'],
    },
    'C35': {
        'units': [{'unit': 'c35_export'}],
        'replays': [{'for': r'$^', 'driver': 'replay/c35', 'bin': 'replay', 'args': {'mode': 'search'}, 'thorough': True, 'on_undecided': True,
                     'history': 'generated workspaces (same-named modules in several main roots, types declared both in a library and in main, a symlinked directory): every declared main item exactly once, nothing from libraries, N exports in child processes byte-identical'},
                    {'for': r'output-independent-of-hash-order|every-main-module-listed', 'driver': 'replay/c35', 'bin': 'replay', 'thorough': True,
                     'history': 'a generated workspace (14 types, 13 modules, 12 globals, one library) exported by emmylua_doc_cli::run_doc_cli in 8 child processes; outputs compared byte for byte; every declared item looked up in the JSON'}],
        'level': 'proof',
        'level_text': 'On the real export_types / export_modules / export_globals / export (iterator pipelines desugared to loops by named rules) and the real index accessors get_all_types / get_module_infos / get_all_global_decl_ids / is_main, for every index state satisfying index_wf: each accessor yields every stored value exactly once; the exported lists contain exactly one entry per class / enum / alias with a location in the main workspace, per main-workspace module that exports a value, per main-workspace global with a declaration and a cached type - nothing whose locations are all in library / std workspaces; and each list equals the listing of its selection in the canonical (strictly sorted, total) key order, i.e. it is a function of the index CONTENTS and independent of the iteration order of the hash maps (sort_by comparator proved to be that total order).',
        'level_note': 'the per-item renderers (export_class / export_enum / export_alias / export_members / export_property / render_typ) are uninterpreted deterministic functions of (db, item) - an assumption, known to have been false for Enum.typ before fix c5dddaa; index_wf (each declaration stored under its own id, each module under its own file id, no decl id in two global slots) is a precondition, proved for the module index in unit c10_module; derived Ord of LuaTypeDeclId is a total order consistent with Eq (assumed: derive); std contracts of sort_by and Ordering::then as assume_specification; serde serialisation and generate_json not covered; OPEN known finding: a main-workspace module whose file returns nothing is not listed',
        'not_covered': ['bytes of an entry beyond its selection and order (renderers uninterpreted)', 'reproducibility of the index contents themselves (file-id assignment, per-name vector order)', 'generate_json / serde / file writing', 'the markdown generator'],
    },
    'C36': {
        'units': [{'unit': 'c36_exit'}, {'unit': 'c36_writers'},
                  # task/channel bookkeeping of run_check + the whole receive loop of output_result + main-workspace file selection
                  {'unit': 'c36_channel'}],
        'replays': [{'for': r'$^', 'driver': 'replay/c36', 'bin': 'replay', 'args': {'mode': 'search'}, 'thorough': True, 'on_undecided': True,
                     'history': 'the real run_check in child processes on generated workspaces of 1, 5, 31, 32, 33, 40, 75 main files + a library, x severity filter x warnings-as-errors x {json, sarif, text}: exit status and the multiset of reported (file, range, code) against an expectation computed from diagnose_file per main file'}],
        'level': 'proof',
        'level_text': "On the real text, for every diagnostics vector, filter and flag. (c36_exit) per file: the writer is handed exactly the order-preserving sub-list that passes --severity, once, under its own file id; the error flag becomes true exactly when a reported diagnostic is an error or (with --warnings-as-errors) a warning; the status is non-zero exactly when the flag is set. (c36_channel) run_check sends exactly one message per main-workspace file (get_main_workspace_file_ids returns exactly the files of the main workspace, each once), the count handed to output_result equals the number of messages, the receive loop of output_result consumes EVERY message exactly once before writer.finish() and terminates; hence every main-workspace file's filtered diagnostics are written once and the exit status reflects all of them. (c36_writers) JSON / SARIF: one entry per diagnostic under its own file; text: one block per diagnostic.",
        'level_note': 'Vec::retain std contract assumed; tokio abstracted by the named rules async-seq-*: every spawned task runs its body to completion exactly once before the receiver sees the channel closed (scheduling, task panics, runtime shutdown, back-pressure not modelled: the clauses are about WHICH messages are sent and consumed); diagnose_file a function of (analysis, file id); stdout / File as ghost event logs; serde_json and formatting opaque; index invariant file_module_map[k].file_id == k assumed here (a conjunct of module_wf, unit c10_module); counters are usize',
        'not_covered': ['real tokio scheduling: unit c36_channel proves WHICH messages are sent and consumed under the sequential schedule abstraction (every spawned task runs to completion exactly once before the receiver sees the channel closed; task panics / runtime shutdown / back-pressure not modelled)', 'formatting inside the writers (print! arguments, json! layout, SARIF tool lookup)', 'that WorkspaceId::MAIN is assigned to exactly the files of the workspace roots given on the command line', 'run_check before the file selection (argument handling, load_workspace)'],
    },
    'C38': {
        'units': [],
        'engines': [{'kind': 'rustc-traits', 'negative_control': True, 'immutable_shared_state': True, 'immutable_quick': False}],
        # when the static sufficient condition is lost (interior mutability appears in the shared analysis) the check is UNDECIDED and
        # the bounded stress search looks for a schedule-dependent answer on the real code; it also runs in both tiers as a bounded extra
        'replays': [{'for': r'$^', 'driver': 'replay/c38', 'bin': 'replay', 'args': {'mode': 'search'}, 'on_undecided': True, 'quick': True, 'thorough': True,
                     'history': 'fresh analysis of 7 files (1500 globals, table literals against a declared class); 8 threads released by a barrier: cold get_all_global_decl_ids burst, the same file diagnosed by all threads, all files in different orders; every concurrent answer compared with the sequential one'}],
        'level': 'proof',
        'level_text': 'Both sentences, at type level. (1) Static: on a mechanical copy of the workspace from which every `unsafe impl Send/Sync` of emmylua_code_analysis and emmylua_parser has been stripped (except the query-time view SemanticModel), rustc\'s trait solver proves T: Send + Sync for every field type of EmmyLuaAnalysis (list read from the struct on each run), for DbIndex and for EmmyLuaAnalysis itself. (2) Dynamic, by a sufficient condition: for the same types rustc proves T: NoInteriorMut, an auto trait with a negative impl for UnsafeCell (derived structurally through every private field of every reachable type; nightly auto_traits/negative_impls) - the shared analysis is deeply immutable behind `&`, so concurrent read-only queries are functions of immutable data plus per-query state and equal the sequential results with nothing to race on. A failed NoInteriorMut goal is UNDECIDED, never an alarm by itself: the bounded stress search replay/c38 must then exhibit a schedule-dependent answer on the real code for a VIOLATION.',
        'level_note': 'type-level proof by rustc; unsafe impls inside dependencies are trusted; NoInteriorMut is trusted for Arc (refcount), regex::Regex (scratch pool), internment::ArcIntern, rowan green nodes / NodeCache, SmolStr (listed in the evidence); global state outside the analysis value (statics, thread-locals, file system) is not covered; the stress search is BOUNDED (8 threads, 6 rounds) and listed under coverage.bounded',
        'technique': 'contract = auto-trait obligations (Send + Sync with unsafe impls stripped; NoInteriorMut with a negative impl for UnsafeCell) discharged by the rustc trait solver on the real crates; bounded stress search as witness generator when undecided',
        'not_covered': ['interior mutability that is semantically transparent would make the check undecided, not violated', 'SemanticModel (RefCell cache + unsafe impl): per-query view, not held by the analysis', 'statics / thread-locals / IO'],
    },
    'C39': {
        'units': [{'unit': 'c39_write'}],
        'replays': [{'for': r'original-or-formatted-at-every-point', 'driver': 'replay/c39', 'bin': 'replay', 'args': {'mode': 'all'}, 'thorough': True, 'on_undecided': True,
                     'history': 'the real luafmt binary under a file-size limit: `ulimit -f 8; luafmt --write big.lua` (SIGXFSZ), the same with the signal ignored (EFBIG), `ulimit -f 0`, and two files; afterwards every target must hold its complete original or its complete formatted content'}],
        'level': 'proof',
        'level_text': 'Crash safety as a contract over a ghost file-system log (every state the file system passes through): on the real per-file write step of luafmt\'s main and the real helpers write_atomically / write_then_rename / temp_sibling, for every path, original content and formatted text: in --write mode the target holds its complete original or its complete formatted content at EVERY state (also when an operation fails or the process stops between two operations); only the target and a not previously existing temporary sibling ever change; a failed operation is reported and makes the exit status non-zero; --check / --list-different never write. Composition over several files is a proved lemma over the step contract.',
        'level_note': 'the file-system MODEL is the platform specification and is trusted: fs::write = truncate, then chunked appends, stoppable anywhere; rename within one directory is atomic; create_new never touches an existing file; write_all through a handle touches only that file; every Err is counted. Assumed: alias-free paths (no hard links / symlinks between the files of one run), no concurrent writer, the target still holds what read_to_string returned; power-loss durability (directory fsync) is not claimed; the `for path in &files` loop text, the stdin / --output paths and collect_lua_files (distinct targets) are not under contract',
        'not_covered': ['durability across power loss', 'the --output and stdin paths', 'file collection', 'a stale temporary file left by a killed process'],
    },
    'C09': {
        # c22_vfs: a re-submitted text is always re-parsed under the current configuration (trees are Vfs state that clear() does not touch)
        'units': [{'unit': 'c09_clear'}, {'unit': 'c09_reindex'}, {'unit': 'c22_vfs', 'labels': [r'C09\.vfs']},
                  # LuaModuleIndex::{new, clear} leave exactly the root node (module_wf of the empty tree); re-adding a file sweeps its old registration first
                  {'unit': 'c10_module', 'labels': [r'C09\.']}],
        'replays': [{'for': r'LuaMemberIndex::clear', 'driver': 'replay/c09', 'bin': 'replay',
                     'history': 'analyse a file declaring class members; clear_index(); query get_current_owner for the old member ids'}],
        'level': 'proof',
        'level_text': 'reindex = clear_index + update_index(all files) and the analysers that refill the indexes are the same code as in a fresh analysis, so the property reduces to: after DbIndex::clear every fact-holding field equals its value in DbIndex::new(). Verus proves, for every index state, that X::new and X::clear both establish fresh_X for each of the 14 index structs, and that DbIndex::clear establishes the conjunction; fresh_X is generated from the struct definition read from /repo on every run, with every field classified (an unclassified new field makes the check undecided).',
        'level_note': 'value types opaque; hashbrown->std; config-class fields (patterns, workspaces, id counters, remote schema cache) are not required to be fresh; Vfs and LuaCompilation state outside DbIndex and the analysers themselves are not covered; key model of ModuleNodeId assumed',
        'not_covered': ['that update_index after clear behaves like a fresh analysis (same analyser code, not proved)', 'Vfs state, file-id allocation', 'JsonSchemaIndex (clear is a no-op by design: remote cache)'],
    },
    'C22': {
        # c22_vfs discharges the invariant the LuaDocument contracts assume: the Vfs pairs a text with the LineIndex parsed from it
        'units': [{'unit': 'c22_lineindex'}, {'unit': 'c22_vfs', 'labels': [r'C22\.vfs', r'^(?!.*\[C(09|10|22)\.).*$']}],
        'replays': [{'for': r'.', 'driver': 'replay/c22', 'bin': 'replay', 'args': {'mode': 'search', 'seed': 1, 'maxlen': 5}, 'on_undecided': True, 'quick': True,
                     'history': 'LineIndex::parse(text); get_line_col / get_offset / get_col_offset_at_line / LuaDocument::to_rowan_range over all offsets and (line, col) pairs incl. beyond range'}],
        'engines': [{'kind': 'kani', 'tier': 'thorough', 'crate': 'shims',
             'harnesses': [{'name': 'proofs::textsize_conversions_and_order', 'assert_tag': 'SHIM', 'label': 'shim.textsize'},
                           {'name': 'proofs::textrange_ops', 'assert_tag': 'SHIM', 'label': 'shim.textrange'}]}],
        'level': 'proof',
        'level_text': 'Verus proves, for every text below 4 GiB, every offset and every (line, column): LineIndex::parse establishes the line-start/ASCII-flag representation invariant; get_line_col returns the line containing a char-boundary offset and the number of characters before it on that line; get_offset returns None exactly when the line does not exist and otherwise a char-boundary offset inside that line, exact when the column exists and clamped to the end of the line\'s content otherwise; lemma_round_trip derives offset -> position -> offset identity from these two contracts alone; the LuaDocument wrappers inherit the contracts.',
        'level_note': 'std contracts assumed: slice::partition_point, str::chars().count(), <str as Index>::index forwarding to SliceIndex; text-size shim; the invariant wf(line_index, text) that the LuaDocument contracts assume is established by unit c22_vfs (Vfs::set_file_content stores LineIndex::parse(text) with the text; get_document pairs them) together with the postcondition of parse; columns are counted in Unicode scalar values (C23 is separate); content end of a CRLF line is the position of its \\n',
        'not_covered': ['LineIndex::is_line_only_ascii (public one-line wrapper), LuaDocument::{get_text_slice, get_line_count} (to_lsp_location and get_document_lsp_range are under contract in unit c26_locations)', 'UTF-16 columns: property C23'],
    },
    'C10': {
        'units': [{'unit': 'c10_remove'}, {'unit': 'c10_remove2'}, {'unit': 'c22_vfs', 'labels': [r'C10\.vfs']},
                  # LuaModuleIndex::remove under the tree invariant module_wf (established by new/clear, preserved by add/remove): file map, node lists,
                  # name table swept; emptied nodes released; wf re-established
                  {'unit': 'c10_module', 'labels': [r'C10\.', r'^(?!.*\[C(09|10|20|33)\.).*$']},
                  # the WRITERS of the member / operator / type / property / global / metatable indexes establish the invariants remove relies on
                  # (per-file bookkeeping lists every object the file contributed)
                  {'unit': 'c10_writers'}],
        'replays': [{'for': r'$^', 'driver': 'replay/c10_trace', 'bin': 'replay', 'args': {'mode': 'search', 'seed': 1, 'count': 210, 'known': '--known', 'file': 'known_open_findings.txt'}, 'thorough': True, 'on_undecided': True,
                     'history': 'generated workspaces of 2-4 files from 20 building blocks (partial classes, members from two files, operators, setmetatable, globals, require, meta, namespaces, labels, ...): for every file F on a fresh EmmyLuaAnalysis: remove F and search the Debug dump of the whole DbIndex for its FileId (TRACE), add+remove F and compare with the state that never had F (NEVER-HAD), 5 add/remove rounds (GROWTH)'},
                    {'for': r'LuaModuleIndex|module', 'driver': 'replay/c10', 'bin': 'replay', 'thorough': True, 'quick': True,
                     'history': 'EmmyLuaAnalysis: add a main workspace, update_file_by_uri(lib/a.lua), remove_file_by_uri; inspect the module index; then 5 edits of one file'},
                    {'for': r'Vfs::', 'driver': 'replay/c10_vfs', 'bin': 'replay',
                     'history': 'EmmyLuaAnalysis: update_file_by_uri(untitled:Untitled-1) twice, remove_file_by_uri, then look for the text in the Vfs'}],
        'level': 'proof',
        'level_text': 'For every index of DbIndex, every index state and every file id, Verus proves on the real remove(file_id): (c10_remove) LuaDeclIndex, LuaDependencyIndex, DiagnosticIndex, LuaFlowIndex, LuaSignatureIndex, LuaPropertyIndex and the per-file maps of LuaReferenceIndex lose exactly the entry keyed by the file and every owner listed under it; (c10_remove2) LuaMemberIndex, LuaOperatorIndex, LuaTypeIndex, LuaGlobalIndex, LuaMetatableIndex and the nested sweeps of LuaReferenceIndex: nothing keyed by, listed under or pointing to the removed file remains, emptied containers are released, everything else is unchanged (under the representation invariants member_wf / op_wf / type_wf; the super-clause sweep holds unconditionally); DbIndex::remove delegates to all of them; (c10_module) LuaModuleIndex::remove under the tree invariant module_wf: file map, node lists and name table swept, the chain of emptied nodes released, module_wf re-established; (c10_writers) the WRITERS (add_member, add_member_to_owner, set_member_owner, add_operator, add_type_decl, add_super_type, bind_type, the property writers, add_module_by_module_path, ...) establish and preserve those invariants: every object a file contributes is listed under that file, so remove finds it; (c22_vfs) Vfs::remove_file.',
        'level_note': 'assumed: std contracts of Vec::retain / HashMap::retain / get_mut / iter_mut / entry (assume_specification), hashbrown -> std, key models; call-site preconditions of some writers (operator ids are new, an owner that carries a file is annotated from that file) by reading; NOT covered: facts that OTHER, still present files derived from the removed file (type caches, re-owned members, dependency sets) stay until those files are re-analysed - remove_file_by_uri re-analyses nothing (reported, not failed, by the bounded search replay/c10_trace as STALE-DEPENDENT); query paths; OPEN known findings pinned by replay/c10_trace: a shared class property is dropped with the first co-declaring file, Many([x]) vs One(x), members re-owned to a class of the removed file',
        'not_covered': ['stale facts in dependents of the removed file until they are re-analysed', 'JsonSchemaIndex (remote cache by design)', 'query paths over the indexes'],
    },
    'C31': {
        'units': [{'unit': 'c31_path'},
                  # key flattening + merging of the configuration files: the two expect("always an object") of to_emmyrc_json are unreachable for every flat
                  # map (keys that are both a value and a prefix, empty keys, keys of only dots); merge_values / flatten_object / the merging tail have no precondition
                  {'unit': 'c32_merge', 'labels': [r'C31\.', r'^(?!.*\[C3[12]\.).*$']}],
        'replays': [{'for': r'pre_process_path::expand', 'driver': 'replay/c31', 'bin': 'replay',
                     'history': 'Emmyrc with workspace.workspaceRoots = ["~"] / ["~é"]; pre_process_emmyrc(workspace)'},
                    {'for': r'$^', 'driver': 'replay/c31', 'bin': 'replay', 'args': {'mode': 'search'}, 'on_undecided': True, 'quick': True,
                     'history': 'generated path strings in every path-bearing setting + generated .luarc.json / .emmyrc.json / .emmyrc.lua files through load_configs'}],
        'level': 'proof',
        'level_text': 'Path-expansion clause only: Verus proves on the extracted `~` / `./` / absolute / relative chain of PreProcessContext::pre_process_path that, for every path string, both string slices are in bounds and on char boundaries (the only panic sources of that chain), using proved UTF-8 lemmas (one/two leading ASCII characters occupy one/two bytes).',
        'level_note': 'PathBuf/dirs opaque; str::starts_with and trim_start_matches std contracts assumed; NOT covered by contracts: key flattening of .luarc.json (the &mut serde_json::Value cursor is outside the dialect and Kani cannot compile serde_json), Lua config loading, file reading, serde deserialisation, env-var and placeholder replacement (regex crate) — for these both tiers run the BOUNDED search replay/c31 (168 generated path strings / .luarc.json / .emmyrc.json / .emmyrc.lua files through load_configs and pre_process_emmyrc), listed under coverage.bounded and never counted as proved',
        'not_covered': ['the reading half of load_configs_raw (file reading, JSON / Lua parsing) and serde deserialisation into Emmyrc', 'lua_loader', 'replace_env_var / replace_placeholders'],
    },
    'C01': {
        'units': [{'unit': 'c01_reader', 'labels': [r'C01\.', r'^(?!.*\[C0[12]\.).*$']},
                  {'unit': 'c01_parser', 'labels': [r'C01\.', r'^(?!.*\[C0[12]\.).*$']},
                  {'unit': 'c01_green', 'labels': [r'C01\.', r'^(?!.*\[C0[12]\.).*$']},
                  # the doc-comment re-lexer: LuaDocLexer tiles its range, the LuaDocParser driver emits every re-lexed token once,
                  # parse_comment/parse_docs run to the end of the comment span (the contract c01_parser assumes for LuaDocParser::parse)
                  {'unit': 'c02_gdoc', 'labels': [r'C01\.', r'^(?!.*\[C0[12]\.).*$']},
                  # the ~2200 lines of statement / expression grammar (grammar/lua/{mod,stat,expr}.rs), all 53 fns with their real bodies: they keep the
                  # driver invariant (every token emitted exactly once, in order) - this DISCHARGES the contract unit c01_parser assumes for parse_stats
                  {'unit': 'c02_grammar', 'labels': [r'C01\.', r'^(?!.*\[C0[12]\.).*$']},
                  # machine-checked glue: tiled => tokens_ok, emits + tiled => ranges_ok and tiling of [0, n), leaves tile => concatenation == text
                  {'unit': 'c01_compose'}],
        'replays': [{'for': r'.', 'driver': 'replay/c01', 'bin': 'replay', 'args': {'mode': 'search', 'seed': 1, 'count': 200000}, 'quick': True, 'on_undecided': True,
                     'history': 'parse the text with LuaParser::parse(text, ParserConfig::default()); compare tree text with the input'}],
        'level': 'proof',
        'level_text': 'The statement factors into links text -> tokens -> events -> green elements -> rowan tree, every link proved on the real text extracted from /repo on each run, for every input. L1 (unit c01_reader): the real Reader and the whole real lexer: the tokens tile the text (first starts at 0, adjacent, last ends at text.len(), non-empty, on char boundaries; NUL / BOM included). L2 (c01_parser + c02_grammar + c02_gdoc): the parser driver (init, bump, skip_trivia, parse_trivia_tokens, parse_comments, parse_chunk, the Marker API) keeps the invariant "the EatToken events emitted so far are exactly the tokens before the cursor, once, in order"; ALL 53 functions of the Lua grammar (grammar/lua/{mod,stat,expr}.rs) are proved with their real bodies to keep that invariant (this discharges the contract c01_parser states for parse_stats); the doc-comment side: the whole doc lexer, the LuaDocParser driver and ALL 78 functions of the doc grammar (grammar/doc/{mod,tag,types}.rs) keep the driver invariant of the re-lexed comment (the emitted ranges tile exactly the bytes of the comment tokens). L3 (c01_green): LuaTreeBuilder::build and LuaGreenNodeBuilder hand exactly those ranges, in order, to rowan for EVERY event list. c01_compose: machine-checked glue (theorem_lossless).',
        'level_note': 'assumed: rowan GreenNodeBuilder (tree leaves == emitted tokens); std specs of chars / len_utf8 / str slicing / mem::replace / Vec::drain; that the values flowing through LuaParser::parse are those the link contracts speak about (read off lua_parser.rs:50-84), including the hand-over of per-token facts (char boundaries, inside the text) from c01_parser to the LuaDocParser::parse call site (dtoks_ok; follows from L1, not mechanised); error reporting (t!, push_error, message closures) is rewritten to a no-op by named rules: `errors` is a projected-out field; ParserConfig::support / language level uninterpreted; start states other than LexerState::Normal',
        'not_covered': ['rowan itself', 'content of the error list', 'tree SHAPE (node kinds, nesting) beyond: every token emitted once, in order'],
    },
    'C02': {
        'units': [{'unit': 'c01_reader', 'labels': [r'C02\.', r'^(?!.*\[C0[12]\.).*$']},
                  {'unit': 'c01_parser', 'labels': [r'C02\.', r'^(?!.*\[C0[12]\.).*$']},
                  {'unit': 'c01_green', 'labels': [r'C02\.', r'^(?!.*\[C0[12]\.).*$']},
                  {'unit': 'c02_gdoc', 'labels': [r'C02\.', r'^(?!.*\[C0[12]\.).*$']},
                  # the Lua grammar: no panic (every bump / marker / push_node_end precondition discharged at every call site), every loop and
                  # the whole recursive descent terminate (decreases (tokens remaining, rank)), progress postconditions of every statement parser
                  {'unit': 'c02_grammar', 'labels': [r'C02\.', r'^(?!.*\[C0[12]\.).*$']}],
        'replays': [{'for': r'.', 'driver': 'replay/c01', 'bin': 'replay', 'args': {'mode': 'search', 'seed': 1, 'count': 200000}, 'quick': True, 'on_undecided': True,
                     'history': 'parse the text with LuaParser::parse; a panic or a parse that does not return within 20 s counts'},
                    {'for': r'$^', 'driver': 'replay/c02', 'bin': 'replay', 'args': {'mode': 'search'}, 'thorough': True,
                     'history': 'deeply nested input (parens, tables, function bodies, unary/right-assoc operators, call/index chains, doc types, if/do blocks) at depths 1e2..1e5, parsed on a 2 MiB thread stack in a child process'}],
        'level': 'proof',
        'level_text': "For the lexer (all of it), the parser driver + Marker API + parse_chunk, ALL 53 functions of the Lua grammar (grammar/lua/{mod,stat,expr}.rs), the doc lexer, the LuaDocParser driver and ALL 78 functions of the doc grammar (grammar/doc/{mod,tag,types}.rs: tags and doc TYPES), and both tree builders, Verus proves on the real bodies, for all inputs: (a) no panic: every index, slice, unwrap, unreachable!(), assert, arithmetic obligation and every precondition of bump / mark / push_node_end / Marker::{set_kind,complete,undo} / CompleteMarker::precede / set_current_token_kind at every grammar call site is discharged; (b) no hang: every loop has a decreases measure backed by labelled progress postconditions (a statement parser called on a non-block-follow token consumes a token or fails at a token that is not a statement start; recovery loops consume or stop at end of input; ...), and the whole recursive descent terminates: every function carries decreases (tokens / bytes remaining, rank), checked across the three Lua grammar files in one unit; the event list handed to the tree builder satisfies events_ok (parent links point forward to NodeStarts), the precondition of the builders' panic-freedom.",
        'level_note': 'NOT decided by contracts: stack DEPTH of the recursion (no contract expresses stack usage) - the thorough tier runs the bounded search replay/c02, whose crashes at nesting depth >= 1000 are an OPEN known finding (the recursive-descent grammar has no depth limit); the linear-TIME bound (e.g. the cost of the duplicate check in push_error is outside every contract: error reporting is rewritten to a no-op); assumed: usize depth counters (enter_paren / enter_ternary) do not overflow (each increment follows a bump, tokens.len() < 2^31); ParserConfig::support uninterpreted; latent, unreachable from text: parse_stats would loop on a token stream containing TkContinue / TkConst tokens - the lexer never produces these kinds (proved: C02.lexer.no-soft-keyword-kinds in c01_reader, linked in c01_compose)',
        'not_covered': ['stack overflow from deep nesting (open known finding)', 'time bound', 'content of the error list'],
    },
    'C23': {
        'units': [{'unit': 'c23_encoding'}, {'unit': 'c22_lineindex', 'role': 'pin'}],
        'replays': [{'for': r'$^', 'driver': 'replay/c22', 'bin': 'replay', 'args': {'mode': 'search', 'seed': 1, 'maxlen': 5}, 'on_undecided': True,
                     'history': 'when the units are undecided: the bounded search of C22 checks that the conversions still behave exactly as the two recorded findings say (scalar columns, \\n-only lines); any other behaviour is a new deviation'},
                    {'for': r'.', 'driver': 'replay/c23', 'bin': 'replay',
                     'history': 'LineIndex::get_line_col("\U0001F600x", 4) and LineIndex::parse("a\\rb").line_count()'}],
        'level': 'proof',
        'level_text': 'Unit c22_lineindex re-instantiated with the LSP vocabulary (column weight = UTF-16 length, line starts after \\n, \\r\\n and lone \\r): the same real functions, the same contracts. All obligations verify except the three lemma clauses that encode the weight and the line starts; they fail because the code counts Unicode scalar values and splits at \\n only. These are recorded as known findings, and they are pinned: unit c22_lineindex must verify in the same run, which proves the code behaves exactly as recorded (scalar columns, \\n-only), so any other deviation from the LSP rules is reported as a violation.',
        'level_note': 'the server never negotiates positionEncoding (not decided by a contract: by reading); same assumptions as C22',
        'not_covered': ['positionEncoding negotiation in emmylua_ls', 'call sites that bypass LuaDocument (none found by scan)'],
    },
    'C21': {
        'replays': [{'for': r'.', 'driver': 'replay/c21', 'bin': 'replay', 'args': {'mode': 'search', 'dups': 'dups'}, 'quick': True, 'on_undecided': True,
                     'history': 'generated valid / invalid programs under the default and the full diagnostic configuration; every diagnostic checked for range, code, severity, placeholders, duplicates; every parse error must be reported'}],
        'units': [{'unit': 'c22_lineindex', 'labels': [r'\[C21\.']}, {'unit': 'c20_config', 'labels': [r'\[C21\.', r'\[C20\.add\.wellformed']},
                  # "unless that code is disabled": the disable/enable sets a file declared must not outlive its text
                  {'unit': 'c10_remove', 'labels': [r'C10\.diagnostic\.', r'C10\.DbIndex\.diagnostic_index']}],
        'level': 'proof',
        'level_text': 'Three clauses, each for all inputs. (1) Range: DiagnosticContext::translate_range and LuaDocument::to_lsp_range return, for an ordered in-text char-boundary range, positions that are the exact line/column of the two offsets with start <= end (monotonicity of get_line_col, proved in unit c22_lineindex); the fallback is 0:0. (2) Fields: every diagnostic pushed by add_diagnostic carries Some(severity), Some(String(code name)), a source and the given message; an enabled, unsuppressed code is always pushed. (3) Syntax errors: the extracted loop of SyntaxErrorChecker::check reports every parse error of the file at its translated location with its kind-mapped code, unless that code is disabled or suppressed there.',
        'level_note': 'NOT decided: that each of the ~40 checkers passes an in-text node range to add_diagnostic (precondition of clause 1), message placeholder substitution, absence of exact duplicates; Vfs::get_document pairing text and LineIndex is an assumed invariant; index lookups uninterpreted',
        'not_covered': ['checker-supplied ranges', 'message rendering', 'duplicates', 'token-level syntax checks in the second loop of SyntaxErrorChecker::check'],
    },
    'C25': {
        'units': [{'unit': 'c22_lineindex', 'labels': [r'\[C25\.']},
                  # every token_at_offset call site of the handlers: rowan's panic condition is a proof obligation at the call
                  {'unit': 'c25_sites'}],
        'replays': [{'for': r'.', 'driver': 'replay/c22', 'bin': 'replay', 'args': {'mode': 'search', 'seed': 1, 'maxlen': 4}, 'on_undecided': True,
                     'history': 'position <-> offset conversions on all texts over {a, é, emoji, \\n, \\r} up to 4 chars'},
                    {'for': r'to_rowan_range:precondition-not-satisfied', 'driver': 'replay/c25', 'bin': 'replay', 'args': {'mode': 'reversed-range'}, 'target': 'replay-target-hook',
                     'history': 'LuaDocument::to_rowan_range on a 4-line document with the client ranges 0:5-0:1, 3:0-1:0, 0:u32::MAX-0:0 (what rangeFormatting / colorPresentation pass on unchanged)'},
                    {'for': r'$^', 'driver': 'replay/c25', 'bin': 'replay_handlers', 'features': 'handler_hooks', 'args': {}, 'thorough': True, 'target': 'replay-target-hook',
                     'history': 'the real async handlers under tokio through the guarded hook: rangeFormatting and colorPresentation with reversed ranges; didOpen a.lua (function M.foo at offset 1107) + b.lua (require + call), inlayHint, didChange a.lua to "return {}", inlayHint and the ten position-taking requests at all 59 positions of b.lua'},
                    {'for': r'$^', 'driver': 'replay/c25', 'bin': 'replay', 'args': {'mode': 'search'}, 'thorough': True, 'quick': True, 'on_undecided': True, 'target': 'replay-target-hook',
                     'history': 'the real handlers (hover, definition, implementation, references, rename, completion x2, signature help x2, code actions) through the guarded hook emmylua_ls::verif_hooks on 24 documents x every position on / beyond each line and the document'}],
        'engines': [{'kind': 'scan', 'name': 'token_at_offset', 'glob': 'crates/emmylua_ls/src/handlers/**/*.rs',
                     'pattern': r'token_at_offset\(|covering_element\(', 'covered_by': r'get_offset\(|to_rowan_range\(|position_offset|get_position_offset'}],
        'level': 'proof',
        'level_text': "The named crash mechanism, for all client positions and ranges. (c22_lineindex) for every document and every client (line, character), LuaDocument::get_offset / to_rowan_range / get_col_offset_at_line return None or offsets <= text.len(), and a reversed client range converts to None (TextRange::new's assertion is a discharged obligation); (c25_sites) rowan's panic condition of token_at_offset is a PRECONDITION of the shim, so it is a proof obligation at 16 of the 20 token_at_offset call sites of emmylua_ls/src/handlers (hover, definition, implementation, references, rename x2, completion, completion resolve, signature help, highlight, selection range, inline values, call hierarchy x2, both code-action builders), discharged from the conversion contracts or from the guard in the real text; with C01 (the tree covers [0, text.len()), rowan assumed).",
        'level_note': "NOT decided by contracts: the rest of each handler (everything after the token is found); 4 call sites fed by positions read back from an index or the tree (goto_function, build_inlay_hint [guarded since 8b03b52, not yet under contract], postfix_provider, reference_searcher) are listed as not covered with the invariant each would need; link assumption of every site: the root handed out by the semantic model is the tree of the document's text. Both tiers additionally run the BOUNDED search replay/c25 on the real handlers through the guarded hook (24 documents, every position on / beyond each line); thorough: replay_handlers (real async handlers under tokio: reversed ranges for rangeFormatting / colorPresentation, stale cross-file signature for inlayHint); bounded results are listed under coverage.bounded and never counted as proved",
        'not_covered': ['handler bodies after the token lookup', '4 call sites fed by stored positions'],
    },
    'C26': {
        'units': [{'unit': 'c26_semantic_tokens'}, {'unit': 'c26_ranges'},
                  # hand-built Locations pair a uri with a range of the SAME document (10 sites + LuaDocument::to_lsp_location); the description part of
                  # selection ranges (add_detail_ranges): half-open containment, sorted by length, strictly growing chain under laminar markup items
                  {'unit': 'c26_locations'}],
        'replays': [{'for': r'$^', 'driver': 'replay/c26', 'bin': 'replay', 'args': {'mode': 'search'}, 'thorough': True, 'on_undecided': True, 'target': 'replay-target-hook',
                     'history': 'the real handlers through the guarded hook on 5 generated 5-file workspaces (call operators declared in another file, adjacent markdown items, non-ASCII / non-BMP text, CRLF, regions): every Location inside the document named by its uri and covering the declaration it stands for, selection chains, symbol nesting, folding ranges, semantic-token order / overlap / legend, completion and rename edits, at every position'}],
        'level': 'proof',
        'level_text': 'Clause by clause, on the real code, for all inputs. Semantic tokens (c26_semantic_tokens): legend indices and modifier bits inside the advertised legend, delta encoding decodes to the (line, col)-sorted pieces, multi-line split. Document symbols (c26_ranges): children nest within their parents, selection ranges inside ranges (builder + the binding slices of local / assign statements). Folding ranges (c26_ranges): start <= end for every builder, region pairing. Selection ranges: the ancestor chain is the ancestry of the token, every parent contains its child and differs from it (c26_ranges); the description detail ranges contain the offset (half-open), are sorted by length and form a strictly growing chain when the markup items are laminar (c26_locations). Locations (c26_locations): LuaDocument::to_lsp_location and the 10 hand-built Location sites pair a uri with a range converted by the SAME document.',
        'level_note': 'assumed: std contracts of sort_unstable_by / sort_by_key / collect; LuaDocument::get_line_col / to_lsp_range contracts are proved in unit c22_lineindex and restated as shims; lsp_types constants pairwise distinct; index consistency (an operator / declaration range belongs to the file recorded with it); tree-document agreement; markup items are laminar (any two nest or are disjoint: a property of the 8.8 kLoC markup parser of C37). NOT covered: non-overlap of semantic tokens, the sentinel length of split pieces, completion edits, workspace-edit overlap, the 27 other callers of to_lsp_location (callee under contract, arguments not), get_document_lsp_range ends at (line_count, 0), one line past the last line',
        'not_covered': ['semantic token non-overlap', 'completion item edits', 'workspace edit overlap', 'ranges passed to to_lsp_location by its 27 callers'],
    },
}
