"""property -> units / engines / scope notes. Read by vc/driver.py."""
PROPS = {
    'C20': {
        'units': [{'unit': 'c20_config'}],
        'level': 'proof',
        'level_text': 'Verus discharges, for every state of the indexes and every configuration, the precedence chain of is_checker_enable_by_code, the report/skip/severity contract of add_diagnostic and get_severity, and the enable/library guards of diagnose_file, on the function text extracted from /repo on each run. Unbounded: no input is sampled.',
        'level_note': 'index lookups, default tables, translate_range and check_file are uninterpreted (weakest contract); LuaDiagnosticConfig::new and the globals/globalsRegex guard are not covered; frame of `diagnostics` by module privacy + scan; Verus/Z3/rustc trusted',
        'not_covered': [
            'LuaDiagnosticConfig::new (iterator pipelines): the mapping diagnostics.disable -> workspace_disabled etc. is assumed',
            'the ~50 checkers reach the diagnostics list only through add_diagnostic (scan, not proof)',
        ],
    },
    'C19': {
        'units': [{'unit': 'c19_match'}],
        'engines': [
            {'kind': 'kani', 'tier': 'thorough', 'crate': 'c19',
             'harnesses': [
                 {'name': 'is_match_contract', 'assert_tag': 'C19.is_match', 'label': 'C19.match.contract',
                  'params': ['a0', 'a1', 'd0', 'd1', 'kind_sel', 'same_code', 'is_disable']},
                 {'name': 'is_match_reachable', 'covers_required': True},
             ]},
        ],
        'counterexample_engine': {'kind': 'kani', 'crate': 'c19', 'harnesses': [
            {'name': 'is_match_contract', 'assert_tag': 'C19.is_match', 'label': 'C19.match.contract',
             'params': ['a0', 'a1', 'd0', 'd1', 'kind_sel', 'same_code', 'is_disable']}], 'for': r'DiagnosticAction::is_match'},
        'level': 'proof',
        'level_text': 'Verus proves, for all ranges, kinds and codes, that DiagnosticAction::is_match returns true exactly when the suppression region shares a byte with the diagnostic (or contains a zero-width one) and the kind/code matches, and that the per-file scan returns true exactly when some recorded region matches; in the thorough tier Kani/CBMC proves the same is_match contract on the compiled real crate over the full u32 domain (loop-free, complete) and supplies the counterexample on failure.',
        'level_note': 'text-size shim (cross-checked by Kani), DiagnosticCode/FileId opaque with obeys_key_model; the construction of the regions (disable-next-line / disable-line / block ranges) is covered by unit c19_ranges when present, otherwise not covered',
        'not_covered': ['analyze_diagnostic_* AST plumbing (which comment owns which block)', 'checkers that bypass add_diagnostic (none found by scan)'],
    },
    'C36': {
        'units': [{'unit': 'c36_exit'}],
        'level': 'proof',
        'level_text': 'Verus proves on the extracted body of output_result\'s receive loop, for every diagnostics vector, filter and flag: the writer is handed exactly the order-preserving sub-list that passes --severity, once, under its own file id; the error flag becomes true exactly when a reported diagnostic is an error or (with --warnings-as-errors) a warning; the returned status is non-zero exactly when the flag is set. DiagnosticSeverityFilter::allows is proved against the threshold table.',
        'level_note': 'Vec::retain std contract assumed; the async channel/termination logic (count == total_count) and the three writers\' formatting (text/JSON/SARIF) are not covered: the writers are abstracted to a ghost log; counters are usize (no overflow below 2^64 diagnostics)',
        'not_covered': ['channel receive loop / completion count (async)', 'JSON, SARIF and text writers: that each logged diagnostic is rendered once under its file', 'main-workspace file selection (get_main_workspace_file_ids)'],
    },
    'C38': {
        'units': [],
        'engines': [{'kind': 'rustc-traits', 'negative_control': True}],
        'level': 'proof',
        'level_text': 'Static sentence only: on a mechanical copy of the workspace from which every `unsafe impl Send/Sync` of emmylua_code_analysis and emmylua_parser has been stripped (except the query-time view SemanticModel), rustc\'s trait solver proves T: Send + Sync for every field type of EmmyLuaAnalysis (list read from the struct on each run), for DbIndex and for EmmyLuaAnalysis itself — so every component is thread-safe by auto-trait derivation, with no unchecked assertion of this code base consulted.',
        'level_note': 'type-level proof by rustc; unsafe impls inside dependencies are trusted; the dynamic sentence (concurrent results equal sequential ones, no data race through interior mutability that is Sync by construction) is NOT decided',
        'technique': 'contract = auto-trait obligations discharged by the rustc trait solver on the real crate with unsafe impls stripped',
        'not_covered': ['dynamic race freedom / result equality under concurrency', 'SemanticModel (RefCell cache + unsafe impl): per-query view, not held by the analysis'],
    },
    'C09': {
        'units': [{'unit': 'c09_clear'}],
        'replays': [{'for': r'LuaMemberIndex::clear', 'driver': 'replay/c09', 'bin': 'replay',
                     'history': 'analyse a file declaring class members; clear_index(); query get_current_owner for the old member ids'}],
        'level': 'proof',
        'level_text': 'reindex = clear_index + update_index(all files) and the analysers that refill the indexes are the same code as in a fresh analysis, so the property reduces to: after DbIndex::clear every fact-holding field equals its value in DbIndex::new(). Verus proves, for every index state, that X::new and X::clear both establish fresh_X for each of the 14 index structs, and that DbIndex::clear establishes the conjunction; fresh_X is generated from the struct definition read from /repo on every run, with every field classified (an unclassified new field makes the check undecided).',
        'level_note': 'value types opaque; hashbrown->std; config-class fields (patterns, workspaces, id counters, remote schema cache) are not required to be fresh; Vfs and LuaCompilation state outside DbIndex and the analysers themselves are not covered; key model of ModuleNodeId assumed',
        'not_covered': ['that update_index after clear behaves like a fresh analysis (same analyser code, not proved)', 'Vfs state, file-id allocation', 'JsonSchemaIndex (clear is a no-op by design: remote cache)'],
    },
    'C22': {
        'units': [{'unit': 'c22_lineindex'}],
        'level': 'proof',
        'level_text': 'Verus proves, for every text below 4 GiB, every offset and every (line, column): LineIndex::parse establishes the line-start/ASCII-flag representation invariant; get_line_col returns the line containing a char-boundary offset and the number of characters before it on that line; get_offset returns None exactly when the line does not exist and otherwise a char-boundary offset inside that line, exact when the column exists and clamped to the end of the line\'s content otherwise; lemma_round_trip derives offset -> position -> offset identity from these two contracts alone; the LuaDocument wrappers inherit the contracts.',
        'level_note': 'std contracts assumed: slice::partition_point, str::chars().count(), <str as Index>::index forwarding to SliceIndex; text-size shim; invariant wf(line_index, text) at LuaDocument is a precondition (Vfs builds documents from LineIndex::parse(text): not proved); columns are counted in Unicode scalar values (C23 is separate); content end of a CRLF line is the position of its \\n',
        'not_covered': ['Vfs pairing of text and LineIndex', 'LineIndex::is_line_only_ascii, LuaDocument::{get_text_slice, get_line_count, get_document_lsp_range, ...}'],
    },
    'C10': {
        'units': [{'unit': 'c10_remove'}],
        'level': 'proof',
        'level_text': 'Clause-level: for LuaDeclIndex, LuaDependencyIndex, DiagnosticIndex, LuaFlowIndex, LuaSignatureIndex, LuaPropertyIndex (and the four per-file maps of LuaReferenceIndex) Verus proves for every index state and file id that remove(file_id) deletes exactly the entry keyed by that file (map == old.remove(file_id)), that every signature / property owner registered for the file is gone, and that DbIndex::remove establishes all of these together.',
        'level_note': 'NOT covered: LuaModuleIndex, LuaMemberIndex, LuaTypeIndex, LuaOperatorIndex, LuaMetatableIndex, LuaGlobalIndex (nested get_mut/retain cascades outside the dialect), the nested sweeps of LuaReferenceIndex, Vfs::remove_file, values that mention the removed file inside other files\' entries (e.g. dependency sets), and every query path; HashSet::into_iter modelled as an arbitrary duplicate-free enumeration; key models assumed',
        'not_covered': ['module/member/type/operator/metatable/global indexes', 'reference index nested sweeps', 'Vfs::remove_file', 'memory release'],
    },
}
