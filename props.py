"""property -> units / engines / scope notes. Read by vc/driver.py."""
PROPS = {
    'C20': {
        'units': [{'unit': 'c20_config'}],
        'level': 'proof',
        'not_covered': [
            'LuaDiagnosticConfig::new (iterator pipelines): the mapping diagnostics.disable -> workspace_disabled etc. is assumed',
            'the ~50 checkers reach the diagnostics list only through add_diagnostic (scan, not proof)',
        ],
    },
}
